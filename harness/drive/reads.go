package drive

// Reads: after (and during) a seeded random history, issue READ requests through the repository's real
// HTTP API -- point-in-time / window / both date modes / filters / page sizes following next and
// previous cursors / both orders / groupBy / query templates -- and record every read with the abstract
// query, the abstract output and (once per read point) the abstract ledger observation, as NDJSON for
// spec/TraceReads.tla. This file contains NO oracle: it concretises abstract queries (rendering) and
// projects responses (parsing); what a read must return is decided by TLC from spec/Reads.tla.

import (
	"context"
	"encoding/json"
	"fmt"
	"math/rand"
	"net/url"
	"sort"
	"strconv"
	"strings"
)

// ---------------------------------------------------------------------------- universe

// ReadsRename maps the generator's accounts to addresses of 1..3 segments that share prefixes, so that
// partial ("users::main"), prefix ("users:...") and exact patterns all discriminate.
var ReadsRename = map[string]string{
	"alice":    "users:a:main",
	"bob":      "users:b:main",
	"carol":    "users:a",
	"orders:1": "orders:1",
	"orders:2": "orders:2:main",
}

func rn(a string) string {
	if b, ok := ReadsRename[a]; ok {
		return b
	}
	return a
}

// PrepareReadOps doubles every instant (writes happen at even instants; odd instants lie strictly between
// recorded dates) and renames the accounts.
func PrepareReadOps(ops []Op) []Op {
	out := make([]Op, len(ops))
	for i, op := range ops {
		op.Norm()
		op.Now *= 2
		op.Ts *= 2
		ps := make([]Posting, len(op.Ps))
		for j, p := range op.Ps {
			p.S, p.D = rn(p.S), rn(p.D)
			ps[j] = p
		}
		op.Ps = ps
		am := map[string]map[string]string{}
		for a, m := range op.AMeta {
			am[rn(a)] = m
		}
		op.AMeta = am
		op.Addr = rn(op.Addr)
		out[i] = op
	}
	return out
}

// AddDirectedMetaOps weaves a metadata save on an account at the very beginning of a (prepared) history and
// the deletion of that key in its middle, so that point-in-time reads between the two instants exist
// (the random generator alone rarely produces "save k ... delete k" on one account).
func AddDirectedMetaOps(ops []Op, target string) []Op {
	if len(ops) < 4 {
		return ops
	}
	first := Op{K: "acmeta", L: ops[0].L, Addr: target, Meta: map[string]string{"k": "v", "role": "w"}, Now: 2}
	first.Norm()
	mid := len(ops)/2 + 1
	del := Op{K: "unacmeta", L: ops[0].L, Addr: target, Key: "k", Now: ops[mid].Now}
	del.Norm()
	out := make([]Op, 0, len(ops)+2)
	out = append(out, first)
	out = append(out, ops[:mid]...)
	out = append(out, del)
	out = append(out, ops[mid:]...)
	return out
}

// AddDirectedVolumeOps weaves into the middle of a (prepared) history (a) a BACK-DATED transaction in which one
// (account, asset) pair is touched by three postings (credited, debited, credited again) and (b) a later-dated one on
// the same pair: reads as of an instant then discriminate the order in which the moves of one transaction are
// recorded (insertion-date volumes) and the propagation of a back-dated insert to later-dated moves (effective volumes).
func AddDirectedVolumeOps(ops []Op, acct string) []Op {
	if len(ops) < 4 {
		return ops
	}
	mid := len(ops) / 2
	now := ops[mid].Now
	back := now - 4
	if back < 2 {
		back = 2
	}
	a := Op{K: "create", L: ops[0].L, Now: now, Ts: back, Ps: []Posting{
		{S: "world", D: acct, As: "USD", N: 3},
		{S: acct, D: "orders:1", As: "USD", N: 1},
		{S: "world", D: acct, As: "USD", N: 2},
	}}
	a.Norm()
	b := Op{K: "create", L: ops[0].L, Now: now, Ps: []Posting{
		{S: "world", D: acct, As: "USD", N: 4},
		{S: acct, D: "world", As: "USD", N: 1},
	}}
	b.Norm()
	// on the other asset the opposite order: a back-dated insert FOLLOWED by a later-dated one.  (On USD the back-dated
	// transaction stays the LAST INSERTED move of its pairs while an earlier-inserted move is later-dated: what
	// discriminates "latest by effective date" from "latest inserted".)
	a2 := Op{K: "create", L: ops[0].L, Now: now, Ts: back, Ps: []Posting{
		{S: "world", D: acct, As: "EUR/2", N: 2},
	}}
	a2.Norm()
	c := Op{K: "create", L: ops[0].L, Now: now, Ps: []Posting{
		{S: "world", D: acct, As: "EUR/2", N: 1},
		{S: acct, D: "orders:1", As: "EUR/2", N: 1},
	}}
	c.Norm()
	out := make([]Op, 0, len(ops)+4)
	out = append(out, ops[:mid]...)
	out = append(out, b, a, a2, c)
	out = append(out, ops[mid:]...)
	return out
}

// DirectedReads is the fixed menu issued at every read point (now = instant of the last write).
func DirectedReads(now int) []ReadQ {
	between := now - 1
	if between < 1 {
		between = 1
	}
	agg := func(pit int, ins bool) ReadQ {
		return ReadQ{Res: "agg", Pit: pit, Ins: ins, Filter: TrueNode(), Order: "asc"}
	}
	return []ReadQ{
		agg(MaxInstant, false), agg(now, false), agg(between, false), agg(now, true),
		{Res: "accounts", Pit: now, XVol: true, XEvol: true, Filter: TrueNode(), Order: "asc", Count: true},
		{Res: "volumes", Pit: now, Filter: TrueNode(), Order: "asc"},
	}
}

var (
	rdAddrs    = []string{"users:a:main", "users:b:main", "users:a", "orders:1", "orders:2:main", "world", "nobody"}
	rdPatterns = []string{
		"users:a:main", "users:a", "orders:1", "world", "nobody", // exact
		"users::main", "users:", "orders:", ":a:", "::main", ":1", "users:a:", "::", "orders::main", // partial
		"users:...", "users:a:...", "orders:...", "world:...", ":...", "orders:2:...", // prefix
	}
	rdAssets   = []string{"USD", "EUR/2"}
	rdRefs     = []string{"r1", "r2", "zz"}
	rdLogTypes = []string{"NEW_TRANSACTION", "REVERTED_TRANSACTION", "SET_METADATA", "DELETE_METADATA"}
	// MaxInstant: reads use instants 1..MaxInstant (writes use even instants 2..18)
	MaxInstant = 20
)

// ReadsFeatureSets: metadata-history combinations x moves-history variants.
func ReadsFeatureSets() []map[string]string {
	var out []map[string]string
	for _, mv := range [][2]string{{"ON", "SYNC"}, {"ON", "DISABLED"}, {"OFF", "DISABLED"}} {
		for _, amh := range []string{"SYNC", "DISABLED"} {
			for _, tmh := range []string{"SYNC", "DISABLED"} {
				out = append(out, map[string]string{
					"MOVES_HISTORY": mv[0],
					"MOVES_HISTORY_POST_COMMIT_EFFECTIVE_VOLUMES": mv[1],
					"HASH_LOGS":                    "SYNC",
					"ACCOUNT_METADATA_HISTORY":     amh,
					"TRANSACTION_METADATA_HISTORY": tmh,
				})
			}
		}
	}
	return out
}

// ---------------------------------------------------------------------------- abstract queries

// Node is a filter AST node (uniform record for TLC). Var / SGV / SSV are used by template bodies only.
type Node struct {
	Op   string   `json:"op"` // true | and | or | not | match | lt | lte | gt | gte | exists | in
	Args []Node   `json:"args"`
	F    string   `json:"f"`
	K    string   `json:"k"`
	S    string   `json:"s"`
	N    int      `json:"n"`
	B    bool     `json:"b"`
	SS   []string `json:"ss"`
	SG   []string `json:"sg"`
	Var  string   `json:"var"`
	SGV  []string `json:"sgv"`
	SSV  []string `json:"ssv"`
	// Alias: concrete key used when rendering an address leaf of the volumes resource ("account" | "address")
	Alias string `json:"-"`
}

func (n *Node) norm() {
	if n.Args == nil {
		n.Args = []Node{}
	}
	if n.SS == nil {
		n.SS = []string{}
	}
	if n.SG == nil {
		n.SG = []string{}
	}
	if n.SGV == nil || len(n.SGV) != len(n.SG) {
		n.SGV = make([]string, len(n.SG))
	}
	if n.SSV == nil || len(n.SSV) != len(n.SS) {
		n.SSV = make([]string, len(n.SS))
	}
	for i := range n.Args {
		n.Args[i].norm()
	}
}

func TrueNode() Node { n := Node{Op: "true"}; n.norm(); return n }

// ReadQ is one abstract read.
type ReadQ struct {
	Res    string `json:"res"` // volumes | agg | accounts | transactions | logs | account1 | tx1
	Pit    int    `json:"pit"`
	Oot    int    `json:"oot"`
	Ins    bool   `json:"ins"`
	Grp    int    `json:"grp"`
	Filter Node   `json:"filter"`
	Size   int    `json:"size"`  // 0 = not given (default 15)
	Order  string `json:"order"` // asc | desc
	XVol   bool   `json:"xvol"`
	XEvol  bool   `json:"xevol"`
	ID     int    `json:"id"`
	Addr   string `json:"addr"`
	Count  bool   `json:"count"`
	IsTpl  bool   `json:"isTpl"`
	Tpl    *Tpl   `json:"tpl,omitempty"`
	Call   *Call  `json:"call,omitempty"`
	// rendering choices without semantic content
	Legacy  bool `json:"-"` // volumes: endTime/startTime instead of pit/oot
	Reverse bool `json:"-"` // transactions asc through reverse=true instead of sort=id:asc
}

type VarVal struct {
	T   string `json:"t"` // string | int | date | boolean
	Def bool   `json:"def"`
	S   string `json:"s"`
	N   int    `json:"n"`
	B   bool   `json:"b"`
}

type TplParams struct {
	HPit   bool   `json:"hpit"`
	Pit    int    `json:"pit"`
	HOot   bool   `json:"hoot"`
	Oot    int    `json:"oot"`
	HIns   bool   `json:"hins"`
	Ins    bool   `json:"ins"`
	HGrp   bool   `json:"hgrp"`
	Grp    int    `json:"grp"`
	HSize  bool   `json:"hsize"`
	Size   int    `json:"size"`
	HOrder bool   `json:"horder"`
	Order  string `json:"order"`
	HExp   bool   `json:"hexp"`
	XVol   bool   `json:"xvol"`
	XEvol  bool   `json:"xevol"`
}

func (p TplParams) any() bool {
	return p.HPit || p.HOot || p.HIns || p.HGrp || p.HSize || p.HOrder || p.HExp
}

type Tpl struct {
	ID     string            `json:"id"`
	Res    string            `json:"res"`
	Body   Node              `json:"body"`
	Vars   map[string]VarVal `json:"vars"`
	Params TplParams         `json:"params"`
}

type Call struct {
	Vars   map[string]VarVal `json:"vars"`
	Params TplParams         `json:"params"`
}

// ---------------------------------------------------------------------------- abstract outputs

type VolIt struct {
	A  string `json:"a"`
	As string `json:"as"`
	I  int    `json:"i"`
	O  int    `json:"o"`
	B  int    `json:"b"`
}
type AggIt struct {
	As string `json:"as"`
	B  int    `json:"b"`
}
type AcctIt struct {
	Addr  string            `json:"addr"`
	First int               `json:"first"`
	Meta  map[string]string `json:"meta"`
	Vol   []Vol             `json:"vol"`
	EVol  []Vol             `json:"evol"`
}
type TxIt struct {
	ID    int               `json:"id"`
	Ts    int               `json:"ts"`
	Ref   string            `json:"ref"`
	Rev   bool              `json:"rev"`
	RevAt int               `json:"revAt"`
	Meta  map[string]string `json:"meta"`
}
type LogIt struct {
	ID int `json:"id"`
}

type Page struct {
	Items []any `json:"items"`
	More  bool  `json:"more"`
	Next  bool  `json:"next"`
	Prev  bool  `json:"prev"`
	Size  int   `json:"size"`
	next  string
	prev  string
}

// PrevProbe: what following the `previous` cursor of a page returned, and `next` from there.
type PrevProbe struct {
	Has     bool  `json:"has"`
	Items   []any `json:"items"`
	HasNext bool  `json:"hasNext"`
	NItems  []any `json:"nitems"`
}

// Resize: the walk made with ANOTHER page size from the `next` cursor of the first page: forward to the end (fwd),
// then `previous` hop after hop (back); backEnd: the walk back ended on a page without `previous`.
type Resize struct {
	Checked bool    `json:"checked"`
	Size2   int     `json:"size2"`
	Fwd     [][]any `json:"fwd"`
	Back    [][]any `json:"back"`
	BackEnd bool    `json:"backEnd"`
}

type ReadOut struct {
	Status string      `json:"status"` // ok | validation | not_found | internal
	Msg    string      `json:"msg,omitempty"`
	Pages  []Page      `json:"pages"`
	PErr   string      `json:"perr"`  // "" or what went wrong while following cursors (next:/previous:/full: + class, endless)
	Prevs  []PrevProbe `json:"prevs"` // prevs[k]: the page reached by `previous` from pages[k+1], and by `next` from there
	PrevOK bool        `json:"prevChecked"`
	// listings of 3..8 pages: back[h] = the page reached by the h-th consecutive `previous` hop from the last page; the
	// last element also carries the page reached by `next` from there; backEnd: the walk ended on a page without `previous`
	Rz      Resize      `json:"rz"`
	Back    []PrevProbe `json:"back"`
	BackOK  bool        `json:"backChecked"`
	BackEnd bool        `json:"backEnd"`
	Full   []any       `json:"full"`   // the same query in ONE page (pageSize 100): the reference enumeration for pagination
	FullOK bool        `json:"fullOK"` // full was requested and answered
	Base   []any       `json:"base"`   // filtered aggregated balances only: the same read without the filter
	BaseOK bool        `json:"baseOK"`
	Count  int         `json:"count"`  // -1: not requested
	OD     bool        `json:"od"`     // some result of this read depends on an order the query does not specify
}

// JEntry is one metadata write carried by the logs.
type JEntry struct {
	Kind   string            `json:"kind"` // tx | acct
	Tx     int               `json:"tx"`
	Addr   string            `json:"addr"`
	Op     string            `json:"op"` // set | del
	Key    string            `json:"key"`
	Meta   map[string]string `json:"meta"`
	Date   int               `json:"date"`
	Create bool              `json:"create"`
}

// ReadSt is the abstract observation read lines refer to: the LedgerObs of observation lines plus pure
// projections of strings TLC cannot compute (segments, prefixes, ranks) and the metadata journal.
type ReadSt struct {
	LedgerObs
	JR  []JEntry            `json:"jr"`
	SG  map[string][]string `json:"sg"`
	Pre map[string][]string `json:"pre"`
	RK  map[string]int      `json:"rk"`
	Big bool                `json:"big"` // the amount scale exceeds 2^53 (amounts are not exactly representable as float64)
}

// RLine is one NDJSON line: kind "state" (carries st) or "read" (refers to the latest state line).
type RLine struct {
	Case int               `json:"case"`
	Kind string            `json:"kind"`
	St   *ReadSt           `json:"st,omitempty"`
	Feat map[string]string `json:"feat,omitempty"`
	Q    *ReadQ            `json:"q,omitempty"`
	Out  *ReadOut          `json:"out,omitempty"`
}

// ---------------------------------------------------------------------------- rendering (abstract -> API)

var opName = map[string]string{"match": "$match", "lt": "$lt", "lte": "$lte", "gt": "$gt", "gte": "$gte", "exists": "$exists", "in": "$in"}

func isDateField(f string) bool {
	switch f {
	case "first_usage", "insertion_date", "updated_at", "timestamp", "inserted_at", "reverted_at", "date":
		return true
	}
	return false
}

func varRef(v string) string { return "${" + v + "}" }

// RenderFilter renders a filter AST as the JSON query language of the API (nil for the "true" filter).
func (e *Env) RenderFilter(res string, n Node) any {
	switch n.Op {
	case "true":
		return nil
	case "and", "or":
		items := make([]any, 0, len(n.Args))
		for _, a := range n.Args {
			items = append(items, e.RenderFilter(res, a))
		}
		return map[string]any{"$" + n.Op: items}
	case "not":
		return map[string]any{"$not": e.RenderFilter(res, n.Args[0])}
	}
	key := n.F
	if n.F == "address" && n.Alias != "" {
		key = n.Alias
	}
	if n.K != "" {
		key = fmt.Sprintf("%s[%s]", n.F, n.K)
	}
	var val any
	switch {
	case n.Op == "in":
		xs := make([]any, len(n.SS))
		for i, s := range n.SS {
			if i < len(n.SSV) && n.SSV[i] != "" {
				xs[i] = varRef(n.SSV[i])
			} else {
				xs[i] = s
			}
		}
		val = xs
	case n.F == "address" || n.F == "account" || n.F == "source" || n.F == "destination":
		segs := make([]string, len(n.SG))
		for i, s := range n.SG {
			if i < len(n.SGV) && n.SGV[i] != "" {
				segs[i] = varRef(n.SGV[i])
			} else {
				segs[i] = s
			}
		}
		val = strings.Join(segs, ":")
	case n.Var != "":
		val = varRef(n.Var)
	case isDateField(n.F):
		val = FmtInstant(n.N)
	case n.F == "balance":
		val = rawNum(e.Scale.Up(n.N))
	case n.F == "id":
		val = n.N
	case n.F == "reverted":
		val = n.B
	default:
		val = n.S
	}
	return map[string]any{opName[n.Op]: map[string]any{key: val}}
}

func apiResource(res string) string {
	switch res {
	case "volumes", "accounts", "transactions", "logs":
		return res
	}
	return ""
}

func sortKey(res string) string {
	switch res {
	case "volumes":
		return "account"
	case "accounts":
		return "address"
	}
	return "id"
}

func (e *Env) renderVar(v VarVal) any {
	switch v.T {
	case "int":
		return v.N
	case "amount":
		return rawNum(e.Scale.Up(v.N))
	case "date":
		return FmtInstant(v.N)
	case "boolean":
		return v.B
	}
	return v.S
}

func apiVarType(t string) string {
	if t == "amount" {
		return "int"
	}
	return t
}

func (e *Env) renderParams(res string, p TplParams) map[string]any {
	m := map[string]any{}
	if p.HPit {
		m["endTime"] = FmtInstant(p.Pit)
	}
	if p.HOot {
		m["startTime"] = FmtInstant(p.Oot)
	}
	if p.HIns {
		m["insertionDate"] = p.Ins
	}
	if p.HGrp {
		m["groupBy"] = p.Grp
	}
	if p.HSize {
		m["pageSize"] = p.Size
	}
	if p.HOrder {
		m["sort"] = sortKey(res) + ":" + p.Order
	}
	if p.HExp {
		ex := []string{}
		if p.XVol {
			ex = append(ex, "volumes")
		}
		if p.XEvol {
			ex = append(ex, "effectiveVolumes")
		}
		m["expand"] = ex
	}
	return m
}

// RenderTemplate renders a template as a schema "queries" entry.
func (e *Env) RenderTemplate(t Tpl) map[string]any {
	m := map[string]any{"resource": apiResource(t.Res)}
	if body := e.RenderFilter(t.Res, t.Body); body != nil {
		m["body"] = body
	}
	vars := map[string]any{}
	for name, v := range t.Vars {
		if v.Def {
			vars[name] = map[string]any{"type": apiVarType(v.T), "default": e.renderVar(v)}
		} else {
			vars[name] = apiVarType(v.T)
		}
	}
	if len(vars) > 0 {
		m["vars"] = vars
	}
	if t.Params.any() {
		m["params"] = e.renderParams(t.Res, t.Params)
	}
	return m
}

// ---------------------------------------------------------------------------- projection (API -> abstract)

func classifyRead(status int) string {
	switch {
	case status >= 200 && status < 300:
		return "ok"
	case status == 404:
		return "not_found"
	case status >= 400 && status < 500:
		return "validation"
	}
	return "internal"
}

func (e *Env) volItem(m map[string]any) (VolIt, error) {
	v := VolIt{}
	var err error
	v.A, _ = m["account"].(string)
	v.As, _ = m["asset"].(string)
	if v.I, err = e.num(m["input"]); err != nil {
		return v, err
	}
	if v.O, err = e.num(m["output"]); err != nil {
		return v, err
	}
	if v.B, err = e.num(m["balance"]); err != nil {
		return v, err
	}
	return v, nil
}

func (e *Env) acctItem(m map[string]any) (AcctIt, error) {
	a := AcctIt{Meta: metaOf(m["metadata"]), Vol: []Vol{}, EVol: []Vol{}}
	var err error
	a.Addr, _ = m["address"].(string)
	if a.First, err = instantField(m, "firstUsage"); err != nil {
		return a, err
	}
	if v, ok := m["volumes"]; ok && v != nil {
		if a.Vol, err = e.assetVols(v, a.Addr); err != nil {
			return a, err
		}
	}
	if v, ok := m["effectiveVolumes"]; ok && v != nil {
		if a.EVol, err = e.assetVols(v, a.Addr); err != nil {
			return a, err
		}
	}
	return a, nil
}

func (e *Env) txItem(m map[string]any) (TxIt, error) {
	t, err := e.txOf(m)
	if err != nil {
		return TxIt{}, err
	}
	return TxIt{ID: t.ID, Ts: t.Ts, Ref: t.Ref, Rev: t.Rev, RevAt: t.RevAt, Meta: t.Meta}, nil
}

func (e *Env) itemOf(res string, x any) (any, error) {
	m, _ := x.(map[string]any)
	if m == nil {
		return nil, fmt.Errorf("list item is not an object: %v", x)
	}
	switch res {
	case "volumes":
		return e.volItem(m)
	case "accounts", "account1":
		return e.acctItem(m)
	case "transactions", "tx1":
		return e.txItem(m)
	case "logs":
		return LogIt{ID: plainInt(m["id"])}, nil
	}
	return nil, fmt.Errorf("unknown resource %s", res)
}

func (e *Env) pageOf(res string, v any) (Page, error) {
	p := Page{Items: []any{}}
	cur, _ := v.(map[string]any)["cursor"].(map[string]any)
	if cur == nil {
		return p, fmt.Errorf("no cursor in response")
	}
	data, _ := cur["data"].([]any)
	for _, x := range data {
		it, err := e.itemOf(res, x)
		if err != nil {
			return p, err
		}
		p.Items = append(p.Items, it)
	}
	p.More, _ = cur["hasMore"].(bool)
	p.next, _ = cur["next"].(string)
	p.prev, _ = cur["previous"].(string)
	p.Next, p.Prev = p.next != "", p.prev != ""
	p.Size = plainInt(cur["pageSize"])
	return p, nil
}

// ---------------------------------------------------------------------------- executing a read

type readReq struct {
	method string
	path   string
	body   any
}

func (e *Env) firstRequest(l string, q ReadQ) readReq {
	v := url.Values{}
	prefix := "/v2/" + l
	if q.IsTpl {
		body := map[string]any{}
		vars := map[string]any{}
		for k, x := range q.Call.Vars {
			vars[k] = e.renderVar(x)
		}
		if len(vars) > 0 {
			body["vars"] = vars
		}
		if q.Call.Params.any() {
			body["params"] = e.renderParams(q.Tpl.Res, q.Call.Params)
		}
		return readReq{"POST", prefix + "/queries/" + q.Tpl.ID + "/run?schemaVersion=v1", body}
	}
	pitK, ootK := "pit", "oot"
	if q.Legacy {
		pitK, ootK = "endTime", "startTime"
	}
	if q.Pit != 0 {
		v.Set(pitK, FmtInstant(q.Pit))
	}
	if q.Oot != 0 {
		v.Set(ootK, FmtInstant(q.Oot))
	}
	var body any
	if f := e.RenderFilter(q.Res, q.Filter); f != nil && q.Res != "account1" && q.Res != "tx1" {
		body = f
	}
	if q.Size != 0 {
		v.Set("pageSize", strconv.Itoa(q.Size))
	}
	switch q.Res {
	case "volumes":
		if q.Ins {
			v.Set("insertionDate", "true")
		}
		if q.Grp != 0 {
			v.Set("groupBy", strconv.Itoa(q.Grp))
		}
		if q.Order == "desc" {
			v.Set("sort", "account:desc")
		}
		return readReq{"GET", prefix + "/volumes?" + v.Encode(), body}
	case "agg":
		if q.Ins {
			v.Set("useInsertionDate", "true")
		}
		return readReq{"GET", prefix + "/aggregate/balances?" + v.Encode(), body}
	case "accounts":
		if q.XVol {
			v.Add("expand", "volumes")
		}
		if q.XEvol {
			v.Add("expand", "effectiveVolumes")
		}
		if q.Order == "desc" {
			v.Set("sort", "address:desc")
		}
		return readReq{"GET", prefix + "/accounts?" + v.Encode(), body}
	case "transactions":
		if q.Order == "asc" {
			if q.Reverse {
				v.Set("reverse", "true")
			} else {
				v.Set("sort", "id:asc")
			}
		}
		return readReq{"GET", prefix + "/transactions?" + v.Encode(), body}
	case "logs":
		if q.Order == "asc" {
			v.Set("sort", "id:asc")
		}
		return readReq{"GET", prefix + "/logs?" + v.Encode(), body}
	case "account1":
		return readReq{"GET", prefix + "/accounts/" + url.PathEscape(q.Addr) + "?" + v.Encode(), nil}
	case "tx1":
		return readReq{"GET", fmt.Sprintf("%s/transactions/%d?%s", prefix, q.ID, v.Encode()), nil}
	}
	panic("unknown resource " + q.Res)
}

func (e *Env) followRequest(l string, q ReadQ, first readReq, cursor string) readReq {
	if q.IsTpl {
		return readReq{"POST", first.path, map[string]any{"cursor": cursor}}
	}
	base := first.path
	if i := strings.Index(base, "?"); i >= 0 {
		base = base[:i]
	}
	return readReq{"GET", base + "?cursor=" + url.QueryEscape(cursor), nil}
}

const maxPages = 40

func baseRes(q ReadQ) string {
	if q.IsTpl {
		return q.Tpl.Res
	}
	return q.Res
}

// ExecRead issues the read (all its pages, the previous-cursor probes and the count) and projects it.
func (e *Env) ExecRead(l string, q ReadQ) (ReadOut, error) {
	out := ReadOut{Pages: []Page{}, Prevs: []PrevProbe{}, Back: []PrevProbe{}, Full: []any{}, Base: []any{}, Count: -1,
		Rz: Resize{Fwd: [][]any{}, Back: [][]any{}}}
	e.PG.TakeNotes()
	defer func() {
		for _, n := range e.PG.TakeNotes() {
			if strings.HasPrefix(n, "ORDER-DEPENDENT") {
				out.OD = true
			}
		}
	}()
	res := baseRes(q)
	do := func(r readReq) (*Page, string, string, error) {
		resp := e.St.Do(nil, "rd", r.method, r.path, r.body, nil)
		st := classifyRead(resp.Status)
		if st != "ok" {
			msg := string(resp.Body)
			if len(msg) > 300 {
				msg = msg[:300]
			}
			return nil, st, msg, nil
		}
		v, err := resp.JSON()
		if err != nil {
			return nil, st, "", err
		}
		switch q.Res {
		case "agg":
			p := Page{Items: []any{}}
			d, _ := v.(map[string]any)["data"].(map[string]any)
			keys := make([]string, 0, len(d))
			for k := range d {
				keys = append(keys, k)
			}
			sort.Strings(keys)
			for _, k := range keys {
				b, err := e.num(d[k])
				if err != nil {
					return nil, st, "", err
				}
				p.Items = append(p.Items, AggIt{As: k, B: b})
			}
			return &p, st, "", nil
		case "account1", "tx1":
			p := Page{Items: []any{}}
			it, err := e.itemOf(q.Res, v.(map[string]any)["data"])
			if err != nil {
				return nil, st, "", err
			}
			p.Items = append(p.Items, it)
			return &p, st, "", nil
		}
		p, err := e.pageOf(res, v)
		if err != nil {
			if q.IsTpl {
				// the response of a template run cannot be mapped to the abstract domain exactly (an amount that is
				// not a multiple of the scale): recorded as the outcome "inexact", judged by TLC
				return nil, "inexact", err.Error(), nil
			}
			return nil, st, "", err
		}
		return &p, st, "", nil
	}
	first := e.firstRequest(l, q)
	p, st, msg, err := do(first)
	if err != nil {
		return out, err
	}
	out.Status, out.Msg = st, msg
	if p == nil {
		return out, nil
	}
	out.Pages = append(out.Pages, *p)
	for len(out.Pages) < maxPages && out.Pages[len(out.Pages)-1].next != "" {
		p, st, msg, err := do(e.followRequest(l, q, first, out.Pages[len(out.Pages)-1].next))
		if err != nil {
			return out, err
		}
		if p == nil {
			out.PErr, out.Msg = "next:"+st, msg
			if st == "inexact" {
				out.Status = "inexact"
			}
			return out, nil
		}
		out.Pages = append(out.Pages, *p)
	}
	if len(out.Pages) >= maxPages {
		out.PErr = "endless"
		return out, nil
	}
	// previous: from every page after the first, `previous` must lead to the page before, and `next` from there back
	if len(out.Pages) >= 2 && len(out.Pages) <= 8 {
		out.PrevOK = true
		for k := 1; k < len(out.Pages); k++ {
			pr := PrevProbe{Items: []any{}, NItems: []any{}}
			if out.Pages[k].prev != "" {
				pp, st, msg, err := do(e.followRequest(l, q, first, out.Pages[k].prev))
				if err != nil {
					return out, err
				}
				if pp == nil {
					out.PErr, out.Msg = "previous:"+st, msg
					if st == "inexact" {
						out.Status = "inexact"
					}
					return out, nil
				}
				pr.Has, pr.Items = true, pp.Items
				if pp.next != "" {
					pn, st, msg, err := do(e.followRequest(l, q, first, pp.next))
					if err != nil {
						return out, err
					}
					if pn == nil {
						out.PErr, out.Msg = "previous-next:"+st, msg
						if st == "inexact" {
							out.Status = "inexact"
						}
						return out, nil
					}
					pr.HasNext, pr.NItems = true, pn.Items
				}
			}
			out.Prevs = append(out.Prevs, pr)
		}
	}
	// the walk back: from the last page follow `previous` hop after hop down to the first page (a cursor built BY a
	// previous page is only exercised from the second hop on), then `next` once from there
	if n := len(out.Pages); n >= 3 && n <= 8 {
		out.BackOK = true
		cur := out.Pages[n-1].prev
		for hop := 1; hop < n+3 && cur != ""; hop++ {
			pp, st, msg, err := do(e.followRequest(l, q, first, cur))
			if err != nil {
				return out, err
			}
			if pp == nil {
				out.PErr, out.Msg = "walk-back:"+st, msg
				if st == "inexact" {
					out.Status = "inexact"
				}
				return out, nil
			}
			pr := PrevProbe{Has: true, Items: pp.Items, NItems: []any{}}
			cur = pp.prev
			if cur == "" && pp.next != "" {
				pn, st, msg, err := do(e.followRequest(l, q, first, pp.next))
				if err != nil {
					return out, err
				}
				if pn == nil {
					out.PErr, out.Msg = "walk-back-next:"+st, msg
					if st == "inexact" {
						out.Status = "inexact"
					}
					return out, nil
				}
				pr.HasNext, pr.NItems = true, pn.Items
			}
			out.Back = append(out.Back, pr)
		}
		out.BackEnd = cur == ""
	}
	// a request that follows a cursor may carry ANOTHER pageSize: from the `next` cursor of the first page walk forward
	// to the end with a different page size, then backward with `previous` down to the start (unique-key listings)
	out.Rz = Resize{Fwd: [][]any{}, Back: [][]any{}}
	if n := len(out.Pages); !q.IsTpl && n >= 2 && n <= 8 && out.Pages[0].next != "" && q.Size >= 1 &&
		(q.Res == "accounts" || q.Res == "transactions" || q.Res == "logs") {
		out.Rz.Checked, out.Rz.Size2 = true, q.Size%4+1
		walk := func(start string, prev bool, firstWithSize bool) ([][]any, string, bool, error) {
			pages := [][]any{}
			cur, lastPrev := start, ""
			for hop := 0; hop < 40 && cur != ""; hop++ {
				rq := e.followRequest(l, q, first, cur)
				if hop == 0 && firstWithSize {
					rq.path += "&pageSize=" + strconv.Itoa(out.Rz.Size2)
				}
				pp, st, msg, err := do(rq)
				if err != nil {
					return nil, "", false, err
				}
				if pp == nil {
					out.PErr, out.Msg = "resize-walk:"+st, msg
					return pages, "", false, nil
				}
				pages = append(pages, pp.Items)
				lastPrev = pp.prev
				if prev {
					cur = pp.prev
				} else {
					cur = pp.next
				}
			}
			return pages, lastPrev, cur == "", nil
		}
		fwd, lastPrev, _, err := walk(out.Pages[0].next, false, true)
		if err != nil {
			return out, err
		}
		out.Rz.Fwd = fwd
		if out.PErr == "" && lastPrev != "" {
			back, _, ended, err := walk(lastPrev, true, false)
			if err != nil {
				return out, err
			}
			out.Rz.Back, out.Rz.BackEnd = back, ended
		} else if out.PErr == "" {
			out.Rz.BackEnd = true
		}
	}
	if !q.IsTpl && (q.Res == "volumes" || q.Res == "accounts" || q.Res == "transactions" || q.Res == "logs") {
		q1 := q
		q1.Size = 100
		pf, st, msg, err := do(e.firstRequest(l, q1))
		if err != nil {
			return out, err
		}
		if pf == nil || pf.next != "" {
			out.PErr, out.Msg = "full:"+st, msg
			return out, nil
		}
		out.Full, out.FullOK = pf.Items, true
	}
	if !q.IsTpl && q.Res == "agg" && q.Filter.Op != "true" {
		// the same aggregate WITHOUT the filter: lets TLC tell a wrong fold from a wrong selection
		q1 := q
		q1.Filter = TrueNode()
		pb, st, _, err := do(e.firstRequest(l, q1))
		if err != nil {
			return out, err
		}
		if pb != nil && st == "ok" {
			out.Base, out.BaseOK = pb.Items, true
		}
	}
	if q.Count && !q.IsTpl && (q.Res == "accounts" || q.Res == "transactions") {
		v := url.Values{}
		if q.Pit != 0 {
			v.Set("pit", FmtInstant(q.Pit))
		}
		var body any
		if f := e.RenderFilter(q.Res, q.Filter); f != nil {
			body = f
		}
		resp := e.St.Do(nil, "rd", "HEAD", "/v2/"+l+"/"+q.Res+"?"+v.Encode(), body, nil)
		if classifyRead(resp.Status) == "ok" {
			n, err := strconv.Atoi(resp.Header.Get("Count"))
			if err != nil {
				return out, fmt.Errorf("count header %q", resp.Header.Get("Count"))
			}
			out.Count = n
		} else {
			out.Count = -2
		}
	}
	return out, nil
}

// ---------------------------------------------------------------------------- the observation reads refer to

func prefixesOf(a string) []string {
	segs := strings.Split(a, ":")
	out := make([]string, len(segs))
	for i := range segs {
		out[i] = strings.Join(segs[:i+1], ":")
	}
	return out
}

func stripRevert(m map[string]string) map[string]string {
	delete(m, revertKey)
	return m
}

// ObserveReads: env.Observe plus the metadata journal extracted from the logs and string projections.
func (e *Env) ObserveReads(l string) (*ReadSt, error) {
	obs, err := e.Observe(l)
	if err != nil {
		return nil, err
	}
	st := &ReadSt{LedgerObs: obs, JR: []JEntry{}, SG: map[string][]string{}, Pre: map[string][]string{}, RK: map[string]int{},
		Big: e.Scale.B.BitLen() > 53}
	for _, lg := range obs.Logs {
		var raw struct {
			Data struct {
				Transaction     map[string]any               `json:"transaction"`
				AccountMetadata map[string]map[string]string `json:"accountMetadata"`
				TargetType      string                       `json:"targetType"`
				TargetID        any                          `json:"targetId"`
				Metadata        map[string]any               `json:"metadata"`
				Key             string                       `json:"key"`
			} `json:"data"`
		}
		if err := json.Unmarshal(lg.Raw, &raw); err != nil {
			return nil, fmt.Errorf("log %d: %v", lg.ID, err)
		}
		switch lg.Type {
		case "NEW_TRANSACTION", "REVERTED_TRANSACTION":
			st.JR = append(st.JR, JEntry{Kind: "tx", Tx: lg.Tx, Op: "set", Meta: stripRevert(metaOf(raw.Data.Transaction["metadata"])), Date: lg.Date, Create: true})
			addrs := make([]string, 0, len(raw.Data.AccountMetadata))
			for a := range raw.Data.AccountMetadata {
				addrs = append(addrs, a)
			}
			sort.Strings(addrs)
			for _, a := range addrs {
				m := raw.Data.AccountMetadata[a]
				if m == nil {
					m = map[string]string{}
				}
				st.JR = append(st.JR, JEntry{Kind: "acct", Addr: a, Op: "set", Meta: m, Date: lg.Date})
			}
		case "SET_METADATA":
			en := JEntry{Op: "set", Meta: lg.Meta, Date: lg.Date}
			if lg.Tgt != "" {
				en.Kind, en.Addr = "acct", lg.Tgt
			} else {
				en.Kind, en.Tx = "tx", lg.Tx
			}
			st.JR = append(st.JR, en)
		case "DELETE_METADATA":
			en := JEntry{Op: "del", Key: lg.Key, Meta: map[string]string{}, Date: lg.Date}
			if lg.Tgt != "" {
				en.Kind, en.Addr = "acct", lg.Tgt
			} else {
				en.Kind, en.Tx = "tx", lg.Tx
			}
			st.JR = append(st.JR, en)
		}
	}
	// string projections: every address of the state and of the query universe
	names := map[string]bool{}
	add := func(a string) {
		for _, p := range prefixesOf(a) {
			names[p] = true
		}
		st.SG[a] = strings.Split(a, ":")
		st.Pre[a] = prefixesOf(a)
	}
	for _, a := range rdAddrs {
		add(a)
	}
	for _, a := range obs.Accts {
		add(a.Addr)
	}
	for _, t := range obs.Txs {
		for _, p := range t.Ps {
			add(p.S)
			add(p.D)
		}
	}
	for _, v := range obs.Vols {
		add(v.A)
		names[v.As] = true
	}
	for _, as := range rdAssets {
		names[as] = true
	}
	all := make([]string, 0, len(names))
	for n := range names {
		all = append(all, n)
	}
	sort.Strings(all) // byte order: the order of a C-collated text column
	for i, n := range all {
		st.RK[n] = i + 1
	}
	return st, nil
}

// ---------------------------------------------------------------------------- generating reads

type ReadGen struct {
	R *rand.Rand
}

func NewReadGen(seed int64) *ReadGen { return &ReadGen{R: rand.New(rand.NewSource(seed))} }

func (g *ReadGen) pick(xs []string) string { return xs[g.R.Intn(len(xs))] }
func (g *ReadGen) instant() int            { return 1 + g.R.Intn(MaxInstant) }

func (g *ReadGen) pit() int {
	if g.R.Intn(4) == 0 {
		return 0
	}
	return g.instant()
}

func (g *ReadGen) addrLeaf(f string) Node {
	if g.R.Intn(5) == 0 {
		n := Node{Op: "in", F: f}
		k := 1 + g.R.Intn(2)
		for i := 0; i < k; i++ {
			n.SS = append(n.SS, g.pick(rdAddrs))
		}
		return n
	}
	return Node{Op: "match", F: f, SG: strings.Split(g.pick(rdPatterns), ":")}
}

func (g *ReadGen) cmpOp() string { return g.pick([]string{"match", "lt", "lte", "gt", "gte"}) }

func (g *ReadGen) metaLeaf() Node {
	if g.R.Intn(3) == 0 {
		return Node{Op: "exists", F: "metadata", S: g.pick(GenKeys)}
	}
	return Node{Op: "match", F: "metadata", K: g.pick(GenKeys), S: g.pick(GenVals)}
}

func (g *ReadGen) leaf(res string) Node {
	switch res {
	case "accounts":
		switch g.R.Intn(6) {
		case 0, 1:
			return g.addrLeaf("address")
		case 2:
			return Node{Op: g.cmpOp(), F: g.pick([]string{"first_usage", "insertion_date", "updated_at"}), N: g.instant()}
		case 3:
			n := Node{Op: g.cmpOp(), F: "balance", K: g.pick(rdAssets), N: g.R.Intn(8) - 3}
			if g.R.Intn(5) == 0 {
				n.K = "" // balance without asset: judged by its own predicate (TraceReads!Step_C20_AcctBalanceNoAsset)
			}
			return n
		default:
			return g.metaLeaf()
		}
	case "transactions":
		switch g.R.Intn(9) {
		case 0:
			return Node{Op: g.cmpOp(), F: "id", N: 1 + g.R.Intn(8)}
		case 1:
			if g.R.Intn(3) == 0 {
				return Node{Op: "in", F: "reference", SS: []string{g.pick(rdRefs), g.pick(rdRefs)}}
			}
			return Node{Op: "match", F: "reference", S: g.pick(rdRefs)}
		case 2:
			return Node{Op: g.cmpOp(), F: g.pick([]string{"timestamp", "inserted_at", "updated_at", "reverted_at"}), N: g.instant()}
		case 3:
			return Node{Op: "match", F: "reverted", B: g.R.Intn(2) == 0}
		case 4, 5, 6:
			return g.addrLeaf(g.pick([]string{"account", "source", "destination"}))
		default:
			return g.metaLeaf()
		}
	case "volumes":
		switch g.R.Intn(7) {
		case 0, 1, 2:
			n := g.addrLeaf("address")
			n.Alias = g.pick([]string{"account", "address"})
			return n
		case 3:
			return Node{Op: g.cmpOp(), F: "first_usage", N: g.instant()}
		case 4:
			n := Node{Op: g.cmpOp(), F: "balance", N: g.R.Intn(8) - 3}
			if g.R.Intn(3) > 0 {
				n.K = g.pick(rdAssets)
			}
			return n
		default:
			return g.metaLeaf()
		}
	case "agg":
		if g.R.Intn(2) == 0 {
			return g.addrLeaf("address")
		}
		return g.metaLeaf()
	case "logs":
		switch g.R.Intn(3) {
		case 0:
			return Node{Op: g.cmpOp(), F: "id", N: 1 + g.R.Intn(10)}
		case 1:
			return Node{Op: g.cmpOp(), F: "date", N: g.instant()}
		default:
			return Node{Op: "match", F: "type", S: g.pick(rdLogTypes)}
		}
	}
	panic("leaf: " + res)
}

// Filter generates a filter AST of depth <= d.
func (g *ReadGen) Filter(res string, d int) Node {
	if d <= 1 || g.R.Intn(3) == 0 {
		return g.leaf(res)
	}
	switch g.R.Intn(5) {
	case 0:
		return Node{Op: "not", Args: []Node{g.Filter(res, d-1)}}
	case 1, 2:
		n := Node{Op: "and"}
		for i, k := 0, 1+g.R.Intn(3); i < k; i++ {
			n.Args = append(n.Args, g.Filter(res, d-1))
		}
		return n
	default:
		n := Node{Op: "or"}
		for i, k := 0, 1+g.R.Intn(3); i < k; i++ {
			n.Args = append(n.Args, g.Filter(res, d-1))
		}
		return n
	}
}

func (g *ReadGen) maybeFilter(res string, pct int) Node {
	if g.R.Intn(100) >= pct {
		return TrueNode()
	}
	n := g.Filter(res, 1+g.R.Intn(4))
	if (res == "volumes" || res == "agg") && g.R.Intn(8) == 0 {
		// directed shape: a partial address pattern OR-ed / AND-ed with an $in on the address (the case the lateral
		// push-down rule must judge), possibly next to a metadata leaf
		in := Node{Op: "in", F: "address", SS: []string{g.pick(rdAddrs), g.pick(rdAddrs)}}
		pat := Node{Op: "match", F: "address", SG: strings.Split(g.pick(rdPatterns[5:]), ":")}
		n = Node{Op: g.pick([]string{"or", "or", "and"}), Args: []Node{pat, in}}
		if g.R.Intn(3) == 0 {
			n = Node{Op: "or", Args: []Node{n, g.metaLeaf()}}
		}
	}
	n.norm()
	return n
}

func (g *ReadGen) size() int {
	if g.R.Intn(6) == 0 {
		return 0
	}
	return 1 + g.R.Intn(4)
}

func (g *ReadGen) order() string { return g.pick([]string{"asc", "desc"}) }

// Read generates one direct read.
func (g *ReadGen) Read() ReadQ {
	q := ReadQ{Filter: TrueNode(), Order: "asc"}
	switch r := g.R.Intn(100); {
	case r < 28:
		q.Res = "volumes"
		q.Pit = g.pit()
		if g.R.Intn(3) == 0 {
			q.Oot = g.instant()
		}
		q.Ins = g.R.Intn(2) == 0
		if g.R.Intn(3) == 0 {
			q.Grp = 1 + g.R.Intn(3)
		}
		q.Filter = g.maybeFilter("volumes", 55)
		q.Size, q.Order = g.size(), g.order()
		q.Legacy = g.R.Intn(4) == 0
	case r < 38:
		q.Res = "agg"
		q.Pit = g.pit()
		q.Ins = g.R.Intn(2) == 0
		// aggregated balances of ALL accounts are zero per asset (double entry): mostly filtered, so that they discriminate
		// (unfiltered ones as of an instant still decide conservation: Inv_C01_ConservationAt)
		q.Filter = g.maybeFilter("agg", 70)
	case r < 58:
		q.Res = "accounts"
		q.Pit = g.pit()
		q.Filter = g.maybeFilter("accounts", 60)
		q.XVol = g.R.Intn(3) == 0
		q.XEvol = g.R.Intn(3) == 0
		q.Size, q.Order = g.size(), g.order()
		q.Count = true
	case r < 80:
		q.Res = "transactions"
		q.Pit = g.pit()
		q.Filter = g.maybeFilter("transactions", 60)
		q.Size, q.Order = g.size(), g.order()
		q.Reverse = g.R.Intn(2) == 0
		q.Count = true
	case r < 88:
		q.Res = "logs"
		q.Filter = g.maybeFilter("logs", 60)
		q.Size, q.Order = g.size(), g.order()
	case r < 94:
		q.Res = "account1"
		q.Pit = g.pit()
		q.Addr = g.pick(rdAddrs)
		q.Filter = Node{Op: "match", F: "address", SG: strings.Split(q.Addr, ":")}
		q.Filter.norm()
	default:
		q.Res = "tx1"
		q.Pit = g.pit()
		q.ID = 1 + g.R.Intn(8)
		q.Filter = Node{Op: "match", F: "id", N: q.ID}
		q.Filter.norm()
	}
	return q
}

// variabilize replaces operands of some leaves by template variables (declared in vars).
func (g *ReadGen) variabilize(n *Node, vars map[string]VarVal) {
	if n.Op == "and" || n.Op == "or" || n.Op == "not" {
		for i := range n.Args {
			g.variabilize(&n.Args[i], vars)
		}
		return
	}
	// a literal date cannot be written in a template body (a string operand of a non-string field must be a
	// variable reference), and a bare "balance" (no asset) does not accept a variable: always / never use one
	if n.F == "balance" && n.K == "" {
		n.K = g.pick(rdAssets) // a template body does not accept a balance comparison without an asset
	}
	if n.Op == "true" || (g.R.Intn(2) == 0 && !isDateField(n.F)) {
		return
	}
	name := fmt.Sprintf("v%c", 'a'+len(vars))
	decl := func(v VarVal) {
		v.Def = g.R.Intn(2) == 0
		vars[name] = v
	}
	switch {
	case n.Op == "in":
		if len(n.SS) == 0 {
			return
		}
		i := g.R.Intn(len(n.SS))
		n.SSV[i] = name
		decl(VarVal{T: "string", S: n.SS[i]})
	case len(n.SG) > 0:
		var idx []int
		for i, s := range n.SG {
			if s != "" && s != "..." {
				idx = append(idx, i)
			}
		}
		if len(idx) == 0 {
			return
		}
		i := idx[g.R.Intn(len(idx))]
		n.SGV[i] = name
		decl(VarVal{T: "string", S: n.SG[i]})
	case isDateField(n.F):
		n.Var = name
		decl(VarVal{T: "date", N: n.N})
	case n.F == "balance":
		n.Var = name
		decl(VarVal{T: "amount", N: n.N})
	case n.F == "id":
		n.Var = name
		decl(VarVal{T: "int", N: n.N})
	case n.F == "reverted":
		n.Var = name
		decl(VarVal{T: "boolean", B: n.B})
	default:
		n.Var = name
		decl(VarVal{T: "string", S: n.S})
	}
}

func (g *ReadGen) params(res string, p int) TplParams {
	t := TplParams{Order: "asc"}
	hit := func() bool { return g.R.Intn(100) < p }
	if res != "logs" && hit() {
		t.HPit, t.Pit = true, g.instant()
	}
	if res == "volumes" {
		if hit() && g.R.Intn(2) == 0 {
			t.HOot, t.Oot = true, g.instant()
		}
		if hit() {
			t.HIns, t.Ins = true, g.R.Intn(2) == 0
		}
		if hit() {
			t.HGrp, t.Grp = true, g.R.Intn(4)
		}
	}
	if hit() {
		t.HSize, t.Size = true, 1+g.R.Intn(4)
	}
	if hit() {
		t.HOrder, t.Order = true, g.order()
	}
	if res == "accounts" && hit() {
		t.HExp, t.XVol, t.XEvol = true, g.R.Intn(2) == 0, g.R.Intn(2) == 0
	}
	return t
}

// Template generates a query template for a resource.
func (g *ReadGen) Template(id, res string) Tpl {
	t := Tpl{ID: id, Res: res, Vars: map[string]VarVal{}}
	t.Body = g.maybeFilter(res, 85)
	g.variabilize(&t.Body, t.Vars)
	t.Params = g.params(res, 40)
	return t
}

// Run generates one run of a template: variable bindings and request parameters.
func (g *ReadGen) Run(t Tpl) ReadQ {
	c := Call{Vars: map[string]VarVal{}}
	names := make([]string, 0, len(t.Vars))
	for n := range t.Vars {
		names = append(names, n)
	}
	sort.Strings(names)
	for _, n := range names {
		d := t.Vars[n]
		// bind most variables; leave some to their default (or unbound: the run must then be rejected)
		if g.R.Intn(10) < (map[bool]int{true: 5, false: 9})[d.Def] {
			v := VarVal{T: d.T}
			switch d.T {
			case "string":
				v.S = d.S
				if g.R.Intn(2) == 0 {
					v.S = g.pick([]string{"users", "orders", "a", "main", "1", "k", "v", "w", "role", "r1", "world"})
				}
			case "date":
				v.N = g.instant()
			case "int":
				v.N = 1 + g.R.Intn(8)
			case "amount":
				v.N = g.R.Intn(8) - 3
			case "boolean":
				v.B = g.R.Intn(2) == 0
			}
			c.Vars[n] = v
		}
	}
	c.Params = g.params(t.Res, 30)
	tt := t
	return ReadQ{Res: t.Res, Filter: TrueNode(), Order: "asc", IsTpl: true, Tpl: &tt, Call: &c}
}

// ---------------------------------------------------------------------------- cases

// ReadsCase is a replayable case: a history, the points at which reads are issued, and the read seed.
type ReadsCase struct {
	N        int               `json:"case"`
	Seed     int64             `json:"seed"`
	Scale    string            `json:"scale"`
	Features map[string]string `json:"features"`
	Ops      []Op              `json:"ops"`    // prepared (PrepareReadOps)
	Points   []int             `json:"points"` // read after this many operations
	Reads    int               `json:"reads"`  // direct reads per case (spread over the points)
	TplRuns  int               `json:"tplRuns"`
}

// RunReadsCase executes a case and returns its trace lines.
func RunReadsCase(c ReadsCase) ([]RLine, error) {
	env, err := NewEnv(EnvOptions{Scale: c.Scale})
	if err != nil {
		return nil, &Inconclusive{Msg: "bootstrap: " + err.Error()}
	}
	defer env.Close()
	const l = "l1"
	if err := env.CreateLedger(l, "b1", c.Features); err != nil {
		return nil, &Inconclusive{Msg: err.Error()}
	}
	g := NewReadGen(c.Seed ^ 0x5eed)
	lines := []RLine{}
	ctx := context.Background()
	observe := func() error {
		st, err := env.ObserveReads(l)
		if err != nil {
			return obsFailure(env, err)
		}
		lines = append(lines, RLine{Case: c.N, Kind: "state", St: st, Feat: c.Features})
		return nil
	}
	read := func(q ReadQ) error {
		q.Filter.norm()
		if q.IsTpl {
			q.Tpl.Body.norm()
		}
		out, err := env.ExecRead(l, q)
		if err != nil {
			return obsFailure(env, err)
		}
		lines = append(lines, RLine{Case: c.N, Kind: "read", Q: &q, Out: &out})
		return nil
	}
	points := map[int]bool{}
	for _, p := range c.Points {
		points[p] = true
	}
	perPoint := c.Reads
	if len(c.Points) > 0 {
		perPoint = (c.Reads + len(c.Points) - 1) / len(c.Points)
	}
	now := 1
	for i := 0; i <= len(c.Ops); i++ {
		if points[i] {
			// reads happen "now": the clock only matters for writes, but keep it at the last write instant
			env.SetNow(now)
			if err := observe(); err != nil {
				return nil, err
			}
			for k := 0; k < perPoint; k++ {
				if err := read(g.Read()); err != nil {
					return nil, err
				}
			}
			// a fixed menu at every read point: UNFILTERED reads as of instants at / just before / after the last write, in
			// both date modes (random reads rarely combine "unfiltered", "effective mode" and "pit at or after the latest
			// effective date", which is what discriminates how the latest move of a pair is chosen)
			for _, q := range DirectedReads(now) {
				if err := read(q); err != nil {
					return nil, err
				}
			}
		}
		if i < len(c.Ops) {
			op := c.Ops[i]
			op.Norm()
			now = op.Now
			env.Exec(ctx, "w1", op)
		}
	}
	if c.TplRuns > 0 {
		// query templates: stored in a schema (inserted after the history so that it does not constrain the writes)
		kinds := []string{"volumes", "accounts", "transactions", "logs"}
		tpls := []Tpl{}
		qs := map[string]any{}
		for i := 0; i < 4; i++ {
			t := g.Template(fmt.Sprintf("q%d", i+1), kinds[(i+int(c.Seed&3))%4])
			if i == 3 {
				t = g.Template("q4", kinds[g.R.Intn(4)])
			}
			t.Body.norm()
			tpls = append(tpls, t)
			qs[t.ID] = env.RenderTemplate(t)
		}
		env.SetNow(now)
		r := env.St.Do(ctx, "w1", "POST", "/v2/"+l+"/schemas/v1", map[string]any{"chart": map[string]any{}, "queries": qs}, nil)
		if r.Status != 204 {
			b, _ := json.Marshal(qs)
			return nil, &Inconclusive{Msg: fmt.Sprintf("schema with generated query templates rejected: %d %s :: %s", r.Status, string(r.Body), string(b))}
		}
		if err := observe(); err != nil {
			return nil, err
		}
		for k := 0; k < c.TplRuns; k++ {
			if err := read(g.Run(tpls[k%len(tpls)])); err != nil {
				return nil, err
			}
		}
	}
	if u := env.PG.UnsupportedSeen(); len(u) > 0 {
		return nil, &Inconclusive{Msg: fmt.Sprintf("unsupported SQL in pgmodel: %v", u)}
	}
	return lines, nil
}
