package drive

import (
	"fmt"
	"net/url"
)

// Core is the part of the observable state that no feature flag may change (C35): transactions with
// their post-commit volumes, accounts, metadata, logs, current volumes and balances.
type Core struct {
	Txs   []CoreTx  `json:"txs"`
	Accts []CoreAcc `json:"accts"`
	Logs  []CoreLog `json:"logs"`
	Vols  []VolB    `json:"vols"`
	Agg   []AggB    `json:"agg"`
}

type CoreTx struct {
	ID      int               `json:"id"`
	Ps      []Posting4        `json:"ps"`
	Ts      int               `json:"ts"`
	Ins     int               `json:"ins"`
	Ref     string            `json:"ref"`
	Meta    map[string]string `json:"meta"`
	Rev     bool              `json:"rev"`
	RevAt   int               `json:"revAt"`
	Reverts int               `json:"reverts"`
	PCV     []Vol             `json:"pcv"`
}

type CoreAcc struct {
	Addr  string            `json:"addr"`
	First int               `json:"first"`
	Ins   int               `json:"ins"`
	Meta  map[string]string `json:"meta"`
}

type CoreLog struct {
	ID   int               `json:"id"`
	Type string            `json:"type"`
	Date int               `json:"date"`
	IK   string            `json:"ik"`
	Tx   int               `json:"tx"`
	Tgt  string            `json:"tgt"`
	Key  string            `json:"key"`
	Meta map[string]string `json:"meta"`
}

func CoreOf(o LedgerObs) Core {
	c := Core{Txs: []CoreTx{}, Accts: []CoreAcc{}, Logs: []CoreLog{}, Vols: o.Vols, Agg: o.Agg}
	for _, t := range o.Txs {
		c.Txs = append(c.Txs, CoreTx{ID: t.ID, Ps: t.Ps, Ts: t.Ts, Ins: t.Ins, Ref: t.Ref, Meta: t.Meta, Rev: t.Rev, RevAt: t.RevAt, Reverts: t.Reverts, PCV: t.PCV})
	}
	for _, a := range o.Accts {
		c.Accts = append(c.Accts, CoreAcc{Addr: a.Addr, First: a.First, Ins: a.Ins, Meta: a.Meta})
	}
	for _, g := range o.Logs {
		c.Logs = append(c.Logs, CoreLog{ID: g.ID, Type: g.Type, Date: g.Date, IK: g.IK, Tx: g.Tx, Tgt: g.Tgt, Key: g.Key, Meta: g.Meta})
	}
	if c.Vols == nil {
		c.Vols = []VolB{}
	}
	if c.Agg == nil {
		c.Agg = []AggB{}
	}
	return c
}

// FeatRead: outcome class ("ok" or an error class) of reads that need a feature, under one feature set.
type FeatRead struct {
	Flags      Flags  `json:"flags"`
	VolPit     string `json:"volPit"`     // volumes at a point in time, effective date       needs MOVES_HISTORY
	VolPitIns  string `json:"volPitIns"`  // volumes at a point in time, insertion date       needs MOVES_HISTORY
	AggPitEff  string `json:"aggPitEff"`  // aggregated balances at pit, effective date       needs effective volumes
	AggPitIns  string `json:"aggPitIns"`  // aggregated balances at pit, insertion date       needs MOVES_HISTORY
	AcctVol    string `json:"acctVol"`    // accounts expand=volumes                           needs MOVES_HISTORY
	AcctEff    string `json:"acctEff"`    // accounts expand=effectiveVolumes                  needs effective volumes
	AcctBalPit string `json:"acctBalPit"` // accounts filtered on balance at pit               needs MOVES_HISTORY
}

func (e *Env) readClass(path string, body any) string {
	method := "GET"
	r := e.St.Do(nil, "obs", method, path, body, nil)
	switch {
	case r.Status == 200:
		return "ok"
	case r.Status >= 500:
		return "internal"
	case r.Status >= 400:
		return "rejected"
	}
	return fmt.Sprintf("status%d", r.Status)
}

// FeatureReads issues the feature-dependent reads on ledger l at instant u.
func (e *Env) FeatureReads(l string, u int, flags Flags) FeatRead {
	pit := url.QueryEscape(FmtInstant(u))
	p := "/v2/" + l
	fr := FeatRead{Flags: flags}
	fr.VolPit = e.readClass(p+"/volumes?endTime="+pit, nil)
	fr.VolPitIns = e.readClass(p+"/volumes?insertionDate=true&endTime="+pit, nil)
	fr.AggPitEff = e.readClass(p+"/aggregate/balances?pit="+pit, nil)
	fr.AggPitIns = e.readClass(p+"/aggregate/balances?useInsertionDate=true&pit="+pit, nil)
	fr.AcctVol = e.readClass(p+"/accounts?expand=volumes", nil)
	fr.AcctEff = e.readClass(p+"/accounts?expand=effectiveVolumes", nil)
	fr.AcctBalPit = e.readClass(p+"/accounts?pit="+pit, map[string]any{"$gte": map[string]any{"balance[USD]": 0}})
	return fr
}
