package drive

import (
	"fmt"
	"math/rand"
)

func fund(acct, asset string, n, now int) Op {
	return Op{K: "create", L: "l1", Now: now, Ps: []Posting{{S: "world", D: acct, As: asset, N: n}}}
}

func spend(from, to, asset string, n, bound, now int) Op {
	return Op{K: "create", L: "l1", Now: now, Script: true, Ps: []Posting{{S: from, D: to, As: asset, N: n, B: bound}}}
}

func withIK(o Op, ik string, in int) Op {
	o.IK, o.IKIn = ik, in
	return o
}

func withRef(o Op, ref string) Op { o.Ref = ref; return o }

var hashModes = []map[string]string{
	nil,
	{"HASH_LOGS": "DISABLED"},
	{"HASH_LOGS": "ASYNC"},
}

// ConcFamilies builds the concurrent scenarios. Amounts vary with the seed; every family is small enough
// for preemption-bounded exhaustive exploration at statement granularity.
func ConcFamilies(seed int64, scale string) []ConcCase {
	r := rand.New(rand.NewSource(seed))
	var out []ConcCase
	add := func(family string, feat map[string]string, prefix []Op, par ...Op) {
		for i := range prefix {
			prefix[i].Norm()
			if prefix[i].IKIn == 0 {
				prefix[i].IKIn = 100 + i
			}
		}
		for i := range par {
			par[i].Norm()
			par[i].Now = 3
			if par[i].IKIn == 0 {
				par[i].IKIn = 200 + i
			}
		}
		out = append(out, ConcCase{N: len(out) + 1, Family: family, Scale: scale, Features: feat, Prefix: prefix, Par: par})
	}
	bal := 4 + r.Intn(3)   // 4..6
	a := 2 + r.Intn(bal-2) // 2..bal-1
	b := bal - a + 1       // a + b = bal + 1  > bal
	// --- C06: bounded sources under concurrency
	add("overdraft/two-spenders", nil, []Op{fund("alice", "USD", bal, 1)},
		spend("alice", "bob", "USD", a, 0, 3), spend("alice", "orders:1", "USD", b, 0, 3))
	add("overdraft/two-spenders-postings", nil, []Op{fund("alice", "USD", bal, 1)},
		Op{K: "create", L: "l1", Ps: []Posting{{S: "alice", D: "bob", As: "USD", N: a}}},
		Op{K: "create", L: "l1", Ps: []Posting{{S: "alice", D: "orders:1", As: "USD", N: b}}})
	add("overdraft/up-to", nil, []Op{fund("alice", "USD", bal, 1)},
		spend("alice", "bob", "USD", bal, 2, 3), spend("alice", "orders:1", "USD", 3, 2, 3))
	add("overdraft/never-used-pair", nil, []Op{fund("alice", "USD", bal, 1)},
		spend("alice", "bob", "EUR/2", 2, 3, 3), spend("alice", "orders:1", "EUR/2", 2, 3, 3))
	add("overdraft/never-used-account", nil, []Op{fund("bob", "USD", 1, 1)},
		spend("carol", "bob", "USD", 2, 3, 3), spend("carol", "orders:1", "USD", 2, 3, 3))
	add("overdraft/revert-vs-spend", nil, []Op{fund("alice", "USD", bal, 1)},
		Op{K: "revert", L: "l1", ID: 1}, spend("alice", "bob", "USD", a, 0, 3))
	add("overdraft/three-spenders", nil, []Op{fund("alice", "USD", bal, 1)},
		spend("alice", "bob", "USD", a, 0, 3), spend("alice", "orders:1", "USD", b, 0, 3), spend("alice", "orders:2", "USD", 1, 0, 3))
	add("overdraft/unbounded-and-bounded", nil, []Op{fund("alice", "USD", bal, 1)},
		spend("alice", "bob", "USD", bal+2, -1, 3), spend("alice", "orders:1", "USD", a, 0, 3))
	add("overdraft/receive-then-spend", nil, []Op{fund("alice", "USD", 1, 1)},
		fund("alice", "USD", 3, 3), spend("alice", "bob", "USD", 3, 0, 3))
	// --- C13: idempotency keys
	ik1 := withIK(spend("alice", "bob", "USD", bal, 0, 3), "k1", 301)
	add("ik/same-input-spend-all", nil, []Op{fund("alice", "USD", bal, 1)}, ik1, ik1)
	add("ik/same-input-three", nil, []Op{fund("alice", "USD", bal, 1)}, ik1, ik1, ik1)
	add("ik/different-input", nil, []Op{fund("alice", "USD", bal, 1)},
		withIK(spend("alice", "bob", "USD", 1, 0, 3), "k1", 302), withIK(spend("alice", "bob", "USD", 2, 0, 3), "k1", 303))
	add("ik/same-input-meta", nil, []Op{fund("alice", "USD", bal, 1)},
		withIK(Op{K: "acmeta", L: "l1", Addr: "alice", Meta: map[string]string{"k": "v"}}, "k2", 304),
		withIK(Op{K: "acmeta", L: "l1", Addr: "alice", Meta: map[string]string{"k": "v"}}, "k2", 304))
	add("ik/same-input-revert", nil, []Op{fund("alice", "USD", bal, 1)},
		withIK(Op{K: "revert", L: "l1", ID: 1}, "k3", 305), withIK(Op{K: "revert", L: "l1", ID: 1}, "k3", 305))
	// --- C14: references
	add("ref/same-ref", nil, []Op{fund("alice", "USD", bal, 1)},
		withRef(fund("bob", "USD", 1, 3), "r1"), withRef(fund("orders:1", "EUR/2", 2, 3), "r1"))
	add("ref/same-ref-three", nil, nil,
		withRef(fund("bob", "USD", 1, 3), "r1"), withRef(fund("orders:1", "EUR/2", 2, 3), "r1"), withRef(fund("alice", "USD", 2, 3), "r1"))
	// --- C15: concurrent reverts
	add("revert/double", nil, []Op{fund("alice", "USD", bal, 1)},
		Op{K: "revert", L: "l1", ID: 1}, Op{K: "revert", L: "l1", ID: 1})
	add("revert/double-forced", nil, []Op{fund("alice", "USD", bal, 1), spend("alice", "bob", "USD", 1, 0, 2)},
		Op{K: "revert", L: "l1", ID: 1, Force: true}, Op{K: "revert", L: "l1", ID: 1, AtEff: true, Force: true})
	// --- C16 / C09: ids vs commit order, hash chain, under each hashing mode
	for _, hm := range hashModes {
		tag := "sync"
		if hm != nil {
			tag = hm["HASH_LOGS"]
		}
		add("ids/disjoint-rows-"+tag, hm, []Op{fund("alice", "USD", bal, 1)},
			fund("bob", "USD", 1, 3), fund("orders:1", "EUR/2", 2, 3))
		add("ids/shared-world-row-"+tag, hm, []Op{fund("alice", "USD", bal, 1)},
			fund("bob", "USD", 1, 3), fund("orders:1", "USD", 2, 3))
		// an atomic bulk (its transaction is opened by the caller) racing with a writer on other rows
		atomicFund := fund("carol", "EUR/2", 2, 3)
		atomicFund.API = "bulk-atomic"
		add("ids/atomic-bulk-vs-meta-"+tag, hm, []Op{fund("alice", "USD", bal, 1)},
			atomicFund, Op{K: "acmeta", L: "l1", Addr: "alice", Meta: map[string]string{"k": "v"}})
		add("ids/meta-vs-create-"+tag, hm, []Op{fund("alice", "USD", bal, 1)},
			Op{K: "acmeta", L: "l1", Addr: "alice", Meta: map[string]string{"k": "v"}}, fund("bob", "EUR/2", 1, 3),
			Op{K: "txmeta", L: "l1", ID: 1, Meta: map[string]string{"role": "w"}})
	}
	add("ids/first-writes", nil, nil, fund("bob", "USD", 1, 3), fund("orders:1", "EUR/2", 2, 3))
	// --- C12: import vs concurrent first writes on the same (pristine) ledger l2; l1 is the source
	onL2 := func(o Op) Op { o.L = "l2"; return o }
	imp := Op{K: "import", L: "l2", Src: "l1"}
	for _, bucket := range []string{"b2", "b1"} {
		src := []Op{fund("alice", "USD", bal, 1), spend("alice", "bob", "USD", 1, 0, 2)}
		add("import/vs-write-"+bucket, nil, src, imp, onL2(fund("carol", "USD", 2, 3)))
		out[len(out)-1].Extra = []CaseLedger{{Name: "l2", Bucket: bucket}}
		out[len(out)-1].Target = "l2"
		add("import/vs-acmeta-"+bucket, nil, src, imp, onL2(Op{K: "acmeta", Addr: "carol", Meta: map[string]string{"k": "v"}}))
		out[len(out)-1].Extra = []CaseLedger{{Name: "l2", Bucket: bucket}}
		out[len(out)-1].Target = "l2"
		add("import/vs-import-"+bucket, nil, src, imp, imp)
		out[len(out)-1].Extra = []CaseLedger{{Name: "l2", Bucket: bucket}}
		out[len(out)-1].Target = "l2"
	}
	add("import/vs-two-writes", nil, []Op{fund("alice", "USD", bal, 1)}, imp, onL2(fund("carol", "USD", 2, 3)), onL2(fund("bob", "EUR/2", 1, 3)))
	out[len(out)-1].Extra = []CaseLedger{{Name: "l2", Bucket: "b2"}}
	out[len(out)-1].Target = "l2"
	// --- C34: the async block builder racing with writers whose log ids and commits may be reordered;
	// the builder runs once more, to completion, after everybody returned (Quiesce)
	async := map[string]string{"HASH_LOGS": "ASYNC"}
	blocks := func(size int) Op { return Op{K: "blocks", L: "l1", ID: size} }
	for _, size := range []int{1, 2, 100} {
		tag := fmt.Sprintf("size%d", size)
		add("blocks/disjoint-rows-"+tag, async, []Op{fund("alice", "USD", bal, 1)},
			fund("bob", "USD", 1, 3), fund("orders:1", "EUR/2", 2, 3), blocks(size))
		out[len(out)-1].Quiesce = size
		add("blocks/shared-row-"+tag, async, []Op{fund("alice", "USD", bal, 1)},
			fund("bob", "USD", 1, 3), fund("orders:1", "USD", 2, 3), blocks(size))
		out[len(out)-1].Quiesce = size
	}
	add("blocks/two-builders", async, []Op{fund("alice", "USD", bal, 1), fund("bob", "USD", 1, 2)},
		fund("orders:1", "EUR/2", 2, 3), blocks(1), blocks(1))
	out[len(out)-1].Quiesce = 1
	add("blocks/meta-writers", async, []Op{fund("alice", "USD", bal, 1)},
		Op{K: "acmeta", L: "l1", Addr: "alice", Meta: map[string]string{"k": "v"}}, fund("bob", "EUR/2", 1, 3), blocks(2))
	out[len(out)-1].Quiesce = 2
	return out
}
