package drive

import (
	"context"
	"encoding/json"
	"fmt"
	"io"
	"sync"
	"time"

	logging "github.com/formancehq/go-libs/v5/pkg/observe/log"

	"github.com/formancehq/ledger/internal/storage"
	"github.com/formancehq/ledger/verifharness/pgmodel"
)

// Async log blocks (C34).  Blocks are built by the repository's own AsyncBlockRunner, which calls the
// create_blocks procedure of the bucket for every ledger with HASH_LOGS=ASYNC.  The runner is driven through
// its public Run/Stop with a schedule that fires exactly once, immediately.

// BlockObs is one row of logs_blocks as observed through SQL (there is no API for blocks).
type BlockObs struct {
	ID   int `json:"id"`
	Prev int `json:"prev"` // id of the previous block (0 for the first)
	From int `json:"from"` // covers the log ids in (From, To]
	To   int `json:"to"`
	// OK: the stored hash equals the documented digest - sha256(previous block hash || for each log of the
	// ledger with From < id <= To, in id order: type || encode(memento,'escape') || json date || idempotency
	// key || id) - recomputed NOW over the logs currently committed in that range
	OK bool `json:"ok"`
	N  int  `json:"n"` // number of logs currently committed in (From, To]
}

// BlkMap marshals nil as {} (TLC reads the field of every line).
type BlkMap map[string][]BlockObs

func (m BlkMap) MarshalJSON() ([]byte, error) {
	if m == nil {
		return []byte("{}"), nil
	}
	return json.Marshal(map[string][]BlockObs(m))
}

type onceSchedule struct {
	mu    sync.Mutex
	calls int
	ran   chan struct{}
}

func (s *onceSchedule) Next(t time.Time) time.Time {
	s.mu.Lock()
	defer s.mu.Unlock()
	s.calls++
	if s.calls == 1 {
		return t // fire now
	}
	if s.calls == 2 {
		close(s.ran) // the first run has returned
	}
	return t.Add(10000 * time.Hour)
}

// RunBlocks runs the real AsyncBlockRunner once (every ASYNC ledger of the database), as `worker`.
func (e *Env) RunBlocks(ctx context.Context, worker string, maxBlockSize int) Res {
	if ctx == nil {
		ctx = context.Background()
	}
	ctx = pgmodel.WithWorker(ctx, worker)
	ctx = logging.ContextWithLogger(ctx, logging.NewDefaultLogger(io.Discard, false, false, false))
	if maxBlockSize <= 0 {
		maxBlockSize = 1000
	}
	sch := &onceSchedule{ran: make(chan struct{})}
	r := storage.NewAsyncBlockRunner(logging.FromContext(ctx), e.St.Bun, storage.AsyncBlockRunnerConfig{MaxBlockSize: maxBlockSize, Schedule: sch})
	done := make(chan error, 1)
	go func() { done <- r.Run(ctx) }()
	select {
	case <-sch.ran:
	case err := <-done:
		return Res{Err: "harness", Msg: fmt.Sprintf("block runner returned early: %v", err)}
	case <-time.After(120 * time.Second):
		return Res{Err: "harness", Msg: "block runner did not finish"}
	}
	sctx, cancel := context.WithTimeout(context.Background(), 30*time.Second)
	defer cancel()
	if err := r.Stop(sctx); err != nil {
		return Res{Err: "harness", Msg: "block runner stop: " + err.Error()}
	}
	<-done
	return Res{OK: true}
}

// the digest create_block documents (migration 38), over the logs committed NOW in (from, to]
const blockDigestSQL = `
select coalesce(encode(public.digest(coalesce(%[3]s::bytea, '') || string_agg(
		type ||
		encode(memento, 'escape') ||
		(to_json(date::timestamp)#>>'{}') ||
		coalesce(idempotency_key, '') ||
		id,
		''
	), 'sha256'::text), 'hex'), ''), count(*)
from (
	select * from "%[1]s".logs where ledger = '%[2]s' and id > %[4]d and id <= %[5]d order by id
) logs`

// ObserveBlocks reads logs_blocks of a ledger and re-derives each block's digest.
func (e *Env) ObserveBlocks(l string) ([]BlockObs, error) {
	ctx := pgmodel.WithWorker(context.Background(), "observer")
	var bucket string
	// pgmodel takes no bind parameters (bun interpolates on the client side): literals are inlined
	if err := e.St.SQL.QueryRowContext(ctx, fmt.Sprintf(`select bucket from _system.ledgers where name = '%s'`, l)).Scan(&bucket); err != nil {
		return nil, fmt.Errorf("bucket of %s: %w", l, err)
	}
	rows, err := e.St.SQL.QueryContext(ctx, fmt.Sprintf(`select id, previous, from_id, to_id, encode(hash, 'hex') from "%s".logs_blocks where ledger = '%s' order by id`, bucket, l))
	if err != nil {
		return nil, err
	}
	type raw struct {
		BlockObs
		hash string
	}
	var rs []raw
	for rows.Next() {
		var r raw
		if err := rows.Scan(&r.ID, &r.Prev, &r.From, &r.To, &r.hash); err != nil {
			rows.Close()
			return nil, err
		}
		rs = append(rs, r)
	}
	rows.Close()
	byID := map[int]string{}
	for _, r := range rs {
		byID[r.ID] = r.hash
	}
	out := []BlockObs{}
	for _, r := range rs {
		prev := "null"
		if h, ok := byID[r.Prev]; ok {
			prev = "decode('" + h + "', 'hex')"
		}
		var got string
		var n int
		if err := e.St.SQL.QueryRowContext(ctx, fmt.Sprintf(blockDigestSQL, bucket, l, prev, r.From, r.To)).Scan(&got, &n); err != nil {
			return nil, fmt.Errorf("block digest: %w", err)
		}
		r.OK = got == r.hash
		r.N = n
		out = append(out, r.BlockObs)
	}
	return out, nil
}

// BlocksOf observes the blocks of the given ledgers (only those with HASH_LOGS=ASYNC may have any).
func (e *Env) BlocksOf(names []string) (BlkMap, error) {
	m := BlkMap{}
	for _, n := range names {
		b, err := e.ObserveBlocks(n)
		if err != nil {
			return nil, err
		}
		m[n] = b
	}
	return m, nil
}
