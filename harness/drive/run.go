package drive

import (
	"context"
	"encoding/json"
	"fmt"
	"io"
)

// Case is a replayable sequential history.
type Case struct {
	N        int                          `json:"case"`
	Seed     int64                        `json:"seed"`
	Scale    string                       `json:"scale"`
	Ledgers  []CaseLedger                 `json:"ledgers"`
	Ops      []Op                         `json:"ops"`
	Strict   bool                         `json:"strict,omitempty"`
	Group    int                          `json:"group,omitempty"`
	// FeatureReads: after the history, issue the reads that need a feature and attach their outcome
	// classes to the last line
	FeatureReads bool `json:"featureReads,omitempty"`
}

type CaseLedger struct {
	Name     string            `json:"name"`
	Bucket   string            `json:"bucket"`
	Features map[string]string `json:"features,omitempty"`
	// CreateAt: index of the operation before which the ledger is created (0 = at the start)
	CreateAt int `json:"createAt,omitempty"`
}

// Inconclusive is returned for harness-level failures (unsupported SQL, projection impossible...).
type Inconclusive struct{ Msg string }

func (i *Inconclusive) Error() string { return "INCONCLUSIVE: " + i.Msg }

// RunCase executes a case on a fresh environment and returns its trace lines (first line: reset).
func RunCase(c Case) ([]Line, error) {
	env, err := NewEnv(EnvOptions{Scale: c.Scale, Strict: c.Strict})
	if err != nil {
		return nil, &Inconclusive{Msg: "bootstrap: " + err.Error()}
	}
	defer env.Close()
	lines := []Line{}
	created := map[string]bool{}
	createDue := func(i int) error {
		for _, l := range c.Ledgers {
			if !created[l.Name] && l.CreateAt <= i {
				if err := env.CreateLedger(l.Name, l.Bucket, l.Features); err != nil {
					return &Inconclusive{Msg: err.Error()}
				}
				created[l.Name] = true
			}
		}
		return nil
	}
	observeAll := func() (map[string]LedgerObs, error) {
		st := map[string]LedgerObs{}
		for _, l := range c.Ledgers {
			if !created[l.Name] {
				continue // a ledger that does not exist yet is absent from the observation
			}
			o, err := env.Observe(l.Name)
			if err != nil {
				return nil, err
			}
			st[l.Name] = o
		}
		return st, nil
	}
	blocksAll := func() (BlkMap, error) {
		var names []string
		for _, l := range c.Ledgers {
			if created[l.Name] {
				names = append(names, l.Name)
			}
		}
		return env.BlocksOf(names)
	}
	if err := createDue(0); err != nil {
		return nil, err
	}
	st0, err := observeAll()
	if err != nil {
		return nil, obsFailure(env, err)
	}
	reset := Line{Case: c.N, Reset: true, St: st0, Ev: []EvObs{}}
	reset.Op.Norm()
	if len(c.Ledgers) > 0 {
		reset.Feat = c.Ledgers[0].Features
	}
	lines = append(lines, reset)
	ctx := context.Background()
	for i, op := range c.Ops {
		nBefore := len(created)
		if err := createDue(i); err != nil {
			return nil, err
		}
		if len(created) > nBefore {
			// a ledger was added (possibly to a bucket other ledgers already live in): an auxiliary line
			// records the observation so that the frame condition covers the creation too
			st, err := observeAll()
			if err != nil {
				return nil, obsFailure(env, err)
			}
			aux := Line{Case: c.N, Aux: true, St: st}
			aux.Op.L = op.L
			lines = append(lines, aux)
		}
		op.Norm()
		if op.K == "blocks" {
			// the async block builder runs to completion (C34): an auxiliary line, the ledgers must not change
			if r := env.RunBlocks(ctx, "w1", op.ID); !r.OK {
				return nil, &Inconclusive{Msg: "block runner: " + r.Msg}
			}
			st, err := observeAll()
			if err != nil {
				return nil, obsFailure(env, err)
			}
			blk, err := blocksAll()
			if err != nil {
				return nil, &Inconclusive{Msg: "observing blocks: " + err.Error()}
			}
			aux := Line{Case: c.N, Aux: true, St: st, Blk: blk, Quiet: true}
			aux.Op.L = op.L
			lines = append(lines, aux)
			continue
		}
		_, cm0 := env.PG.Counters()
		res := env.Exec(ctx, "w1", op)
		_, cm1 := env.PG.Counters()
		evs := env.NewEvents()
		raw := env.St.Listener.Snapshot()
		for j := range evs {
			k := len(raw) - len(evs) + j
			evs[j].AfterCm = raw[k].CommitN > cm0
		}
		_ = cm1
		st, err := observeAll()
		if err != nil {
			// the request that made the state unprojectable is named: the failure belongs to its property too
			e := obsFailure(env, err)
			if pe, ok := e.(*ProjectionError); ok {
				pe.Msg = fmt.Sprintf("after step %d (%s, outcome ok=%v): %s", i+1, op.K, res.OK, pe.Msg)
			}
			return nil, e
		}
		blk, err := blocksAll()
		if err != nil {
			return nil, &Inconclusive{Msg: "observing blocks: " + err.Error()}
		}
		lines = append(lines, Line{Case: c.N, Op: op, Res: res, St: st, Ev: evs, Blk: blk})
	}
	if c.FeatureReads && len(lines) > 0 {
		last := &lines[len(lines)-1]
		for _, l := range c.Ledgers {
			if created[l.Name] {
				last.FRead = append(last.FRead, env.FeatureReads(l.Name, 5, last.St[l.Name].Flags))
			}
		}
	}
	if u := env.PG.UnsupportedSeen(); len(u) > 0 {
		return nil, &Inconclusive{Msg: fmt.Sprintf("unsupported SQL in pgmodel: %v", u)}
	}
	return lines, nil
}

// obsFailure: an observation through the read API failed. Projection errors (off-grid timestamps,
// amounts not divisible by the scale) are reported as such; they are attributed by the caller.
func obsFailure(env *Env, err error) error {
	if u := env.PG.UnsupportedSeen(); len(u) > 0 {
		return &Inconclusive{Msg: fmt.Sprintf("unsupported SQL in pgmodel: %v", u)}
	}
	return &ProjectionError{Msg: err.Error()}
}

// ProjectionError: the API returned something that cannot be mapped to the abstract domain exactly.
type ProjectionError struct{ Msg string }

func (p *ProjectionError) Error() string { return "projection: " + p.Msg }

func WriteLines(w io.Writer, lines []Line) error {
	enc := json.NewEncoder(w)
	for _, l := range lines {
		l.Norm()
		if err := enc.Encode(l); err != nil {
			return err
		}
	}
	return nil
}
