package drive

// Fault sweeps and generic write requests (properties C07, C31).
//
// A Req is one HTTP write request in abstract form: a single operation through its own endpoint or a
// bulk through POST /v2/{ledger}/_bulk. The functions here run a Req on a copy (Fork) of an environment
// with a fault injected at a chosen position of its statement program, and report what can be observed:
// status class, whether the full database snapshot / API observation changed, and the listener calls.
// They contain no oracle: the expected outcome of every (request, fault position, error kind) comes
// from spec/Faults.tla (TLC), the comparison happens in checks/api_common.py.

import (
	"context"
	"crypto/sha256"
	"database/sql"
	"encoding/hex"
	"encoding/json"
	"fmt"
	"math/big"
	"sort"
	"strings"
	"sync"
	"time"

	"github.com/formancehq/ledger/verifharness/pgmodel"
	"github.com/formancehq/ledger/verifharness/stack"
)

// ---------------------------------------------------------------------------- copies and snapshots

// Fork returns an independent copy of the environment: deep copy of the database, fresh stack (fresh
// connection pool, fresh recording listener), same logical clock value. No request may be in flight.
func (e *Env) Fork() *Env {
	pg := e.PG.Clone()
	f := &Env{PG: pg, Feat: map[string]map[string]string{}, Scale: e.Scale}
	for k, v := range e.Feat {
		f.Feat[k] = v
	}
	f.now.Store(e.now.Load())
	pg.Clock = func() time.Time { return TimeOf(int(f.now.Load())) }
	f.St = stack.Open(pg, stack.Options{})
	return f
}

// SnapSchemas lists the schemas a snapshot covers (system schema, public, every bootstrapped bucket).
func SnapSchemas() []string { return append([]string{"_system", "public"}, BootBuckets...) }

func canon(v any) string {
	switch t := v.(type) {
	case nil:
		return "NULL"
	case bool:
		if t {
			return "t"
		}
		return "f"
	case *big.Int:
		if t == nil {
			return "NULL"
		}
		return t.String()
	case string:
		return "'" + t + "'"
	case time.Time:
		return t.UTC().Format("2006-01-02T15:04:05.000000Z")
	case pgmodel.JSON:
		b, _ := json.Marshal(jsonCanon(t.V))
		return "json:" + string(b)
	case []byte:
		return "\\x" + hex.EncodeToString(t)
	case *pgmodel.Array:
		if t == nil {
			return "NULL"
		}
		parts := make([]string, len(t.Elems))
		for i, x := range t.Elems {
			parts[i] = canon(x)
		}
		return "{" + strings.Join(parts, ",") + "}"
	case *pgmodel.Record:
		if t == nil {
			return "NULL"
		}
		parts := make([]string, len(t.Fields))
		for i, x := range t.Fields {
			parts[i] = canon(x)
		}
		return "(" + strings.Join(parts, ",") + ")"
	}
	return fmt.Sprintf("%T:%v", v, v)
}

func jsonCanon(v any) any {
	switch t := v.(type) {
	case pgmodel.JNum:
		return json.Number(string(t))
	case []any:
		out := make([]any, len(t))
		for i, x := range t {
			out[i] = jsonCanon(x)
		}
		return out
	case map[string]any:
		out := map[string]any{}
		for k, x := range t {
			out[k] = jsonCanon(x)
		}
		return out
	}
	return v
}

// Snapshot is the committed content of every table of every schema (sequences are not tables and are
// excluded on purpose: a rolled-back write may consume sequence values). Rows are canonical strings.
type Snapshot map[string][]string

type tableRef struct{ schema, table string }

func (e *Env) tableList() []tableRef {
	var out []tableRef
	for _, sc := range SnapSchemas() {
		for _, t := range e.PG.Tables(sc) {
			out = append(out, tableRef{sc, t})
		}
	}
	return out
}

func rowsCanon(rows []map[string]pgmodel.Value) []string {
	out := make([]string, 0, len(rows))
	for _, r := range rows {
		keys := make([]string, 0, len(r))
		for k := range r {
			keys = append(keys, k)
		}
		sort.Strings(keys)
		var sb strings.Builder
		for _, k := range keys {
			sb.WriteString(k)
			sb.WriteByte('=')
			sb.WriteString(canon(r[k]))
			sb.WriteByte(';')
		}
		out = append(out, sb.String())
	}
	sort.Strings(out)
	return out
}

func (e *Env) Snapshot() (Snapshot, error) {
	s := Snapshot{}
	for _, tr := range e.tableList() {
		rows, err := e.PG.Dump(tr.schema, tr.table)
		if err != nil {
			return nil, err
		}
		s[tr.schema+"."+tr.table] = rowsCanon(rows)
	}
	return s, nil
}

func (s Snapshot) Hash() string {
	keys := make([]string, 0, len(s))
	for k := range s {
		keys = append(keys, k)
	}
	sort.Strings(keys)
	h := sha256.New()
	for _, k := range keys {
		h.Write([]byte(k))
		h.Write([]byte{0})
		for _, r := range s[k] {
			h.Write([]byte(r))
			h.Write([]byte{1})
		}
	}
	return hex.EncodeToString(h.Sum(nil))[:20]
}

// Counts is the per-table row-count signature of the snapshot ("how much was written", whatever the ids).
func (s Snapshot) Counts() string {
	keys := make([]string, 0, len(s))
	for k := range s {
		keys = append(keys, k)
	}
	sort.Strings(keys)
	var sb strings.Builder
	for _, k := range keys {
		fmt.Fprintf(&sb, "%s=%d;", k, len(s[k]))
	}
	return sb.String()
}

// Rows counts the rows of the snapshot.
func (s Snapshot) Rows() int {
	n := 0
	for _, r := range s {
		n += len(r)
	}
	return n
}

// SnapDiff lists the tables whose content differs, with one differing row each (diagnostics only).
func SnapDiff(a, b Snapshot) []string {
	var out []string
	keys := map[string]bool{}
	for k := range a {
		keys[k] = true
	}
	for k := range b {
		keys[k] = true
	}
	ks := make([]string, 0, len(keys))
	for k := range keys {
		ks = append(ks, k)
	}
	sort.Strings(ks)
	for _, k := range ks {
		ra, rb := a[k], b[k]
		if strings.Join(ra, "\n") == strings.Join(rb, "\n") {
			continue
		}
		inA := map[string]bool{}
		for _, r := range ra {
			inA[r] = true
		}
		extra := ""
		for _, r := range rb {
			if !inA[r] {
				extra = r
				break
			}
		}
		if len(extra) > 300 {
			extra = extra[:300]
		}
		out = append(out, fmt.Sprintf("%s: %d -> %d rows; new/changed row: %s", k, len(ra), len(rb), extra))
	}
	return out
}

// ---------------------------------------------------------------------------- generic write request

// Req is one write request. K = "single": Els has exactly one operation, sent to its own endpoint (Dry
// = dryRun query parameter). K = "bulk": POST /v2/{l}/_bulk with the three options. Fault = m > 0 asks
// the runner to make the m-th writing COMMIT of the request fail (0: none). All fields are always
// present so that TLC sees uniform records.
type Req struct {
	K        string `json:"k"`
	L        string `json:"l"`
	Now      int    `json:"now"`
	Atomic   bool   `json:"atomic"`
	Parallel bool   `json:"parallel"`
	COF      bool   `json:"cof"`
	Dry      bool   `json:"dry"`
	Fault    int    `json:"fault"`
	Els      []Op   `json:"els"`
	// CT: content type of a bulk: "" = application/json (one JSON array), "json-stream" = one JSON object per
	// line (application/vnd.formance.ledger.api.v2.bulk+json-stream). The semantics do not depend on it.
	CT string `json:"ct"`
}

func (r *Req) Norm() {
	if r.Els == nil {
		r.Els = []Op{}
	}
	for i := range r.Els {
		r.Els[i].Norm()
		if r.Els[i].L == "" {
			r.Els[i].L = r.L
		}
		r.Els[i].Now = r.Now
		if r.K == "single" {
			r.Els[i].Dry = r.Dry
		}
	}
}

// ElemRes is the classified outcome of one element (for K = "single": of the request).
type ElemRes struct {
	OK    bool   `json:"ok"`
	Err   string `json:"err"`
	Hit   bool   `json:"hit"`
	ID    int    `json:"id"`
	Code  string `json:"code"`
	Type  string `json:"type"`
	LogID int    `json:"logID"`
	Msg   string `json:"msg,omitempty"`
	// HasData: the result carries a `data` payload (a transaction); Tx is its projection
	HasData bool   `json:"hasData"`
	Tx      *TxObs `json:"tx,omitempty"`
}

// ReqRes is the outcome of a request: HTTP status, number of per-element results returned, and the
// per-element results in the order the response lists them.
type ReqRes struct {
	Status int       `json:"status"`
	OK     bool      `json:"ok"` // 2xx
	N      int       `json:"n"`
	Els    []ElemRes `json:"els"`
	Code   string    `json:"code"` // top-level error code, if any
	Empty  bool      `json:"empty"`
}

// Do runs a request against the real API.
func (e *Env) Do(ctx context.Context, worker string, rq Req) ReqRes {
	rq.Norm()
	e.SetNow(rq.Now)
	if rq.K == "single" {
		op := rq.Els[0]
		res, resp := e.ExecFull(ctx, worker, op)
		er := ElemRes{OK: res.OK, Err: res.Err, Hit: res.Hit, ID: res.ID, Code: res.Code, Msg: res.Msg}
		if res.OK && (op.K == "create" || op.K == "revert") {
			if v, err := resp.JSON(); err == nil {
				if m, ok := v.(map[string]any); ok {
					if d, ok := m["data"].(map[string]any); ok {
						if t, err := e.txOf(d); err == nil {
							er.HasData = true
							er.Tx = &t
						}
					}
				}
			}
		}
		return ReqRes{Status: resp.Status, OK: resp.Status >= 200 && resp.Status < 300, N: 1, Els: []ElemRes{er},
			Code: res.Code, Empty: len(resp.Body) == 0}
	}
	return e.ExecBulk(ctx, worker, rq)
}

// ---------------------------------------------------------------------------- fault injection

// FaultKinds: SQLSTATEs of the sweep plus context cancellation.
var FaultKinds = []string{"08006", "40001", "57014", "cancel", "txdone", "40P01"}

// Probe counts the fault-hook invocations of one worker (one per statement, plus one per COMMIT,
// explicit or implicit) and records the positions at which a writing transaction committed.
type Probe struct {
	mu            sync.Mutex
	Worker        string
	At            int    // position to fail (0: none)
	Kind          string // SQLSTATE or "cancel"
	OnlyCm        bool   // At counts writing commits instead of hook invocations (C31 commit failures)
	cancel        context.CancelFunc
	N             int      // hook invocations seen
	Fired         bool     // the fault was injected
	FiredSQL      string   // statement that was failed
	Commits       []int    // positions (hook invocation numbers) of writing commits
	Kinds         []string // statement kinds in order
	lastCommitPos int
	nCommitHooks  int
	// watch: per writing commit, the engine commit counter and the number of log rows of the ledger
	Durable []durablePoint
	ledger  string
	bucket  string
	// Hashes[j]: snapshot hash right after the (j+1)-th writing commit (only when WantHashes)
	WantHashes bool
	Hashes     []string
	Counts     []string
	tables     []tableRef
}

type durablePoint struct {
	Seq   int64
	NLogs int
}

func injected(kind string) error {
	return &pgmodel.PgErr{Code: kind, Message: "verif: injected fault"}
}

// Install hooks the probe into the database of env. ledger/bucket name the ledger whose log rows are
// counted at every writing commit (for "event after its commit" checks).
func (p *Probe) Install(e *Env, ledger, bucket string, cancel context.CancelFunc) {
	p.cancel = cancel
	p.ledger, p.bucket = ledger, bucket
	if p.WantHashes {
		p.tables = e.tableList()
	}
	e.PG.Fault = func(sess int, worker string, n int64, kind string, sql string) error {
		if worker != p.Worker {
			return nil
		}
		p.mu.Lock()
		defer p.mu.Unlock()
		p.N++
		p.Kinds = append(p.Kinds, kind)
		if kind == "commit" {
			p.lastCommitPos = p.N
		}
		hit := false
		if !p.OnlyCm {
			hit = p.At > 0 && p.N == p.At
		}
		if hit && !p.Fired {
			return p.fire(sql)
		}
		return nil
	}
	e.PG.OnCommit = func(sess int, worker string, seq int64) {
		if worker != p.Worker {
			return
		}
		p.mu.Lock()
		defer p.mu.Unlock()
		p.Commits = append(p.Commits, p.lastCommitPos)
		n := 0
		if rows, err := e.PG.DumpLocked(bucket, "logs"); err == nil {
			for _, r := range rows {
				if s, ok := r["ledger"].(string); ok && s == ledger {
					n++
				}
			}
		}
		p.Durable = append(p.Durable, durablePoint{Seq: seq, NLogs: n})
		if p.WantHashes {
			snap := Snapshot{}
			for _, tr := range p.tables {
				if rows, err := e.PG.DumpLocked(tr.schema, tr.table); err == nil {
					snap[tr.schema+"."+tr.table] = rowsCanon(rows)
				}
			}
			p.Hashes = append(p.Hashes, snap.Hash())
			p.Counts = append(p.Counts, snap.Counts())
		}
	}
}

func (p *Probe) fire(stmt string) error {
	p.Fired = true
	if len(stmt) > 160 {
		stmt = stmt[:160]
	}
	p.FiredSQL = stmt
	if p.Kind == "cancel" {
		if p.cancel != nil {
			p.cancel()
		}
		return context.Canceled
	}
	if p.Kind == "txdone" {
		// The request context is cancelled between two statements and database/sql's watcher goroutine has
		// already rolled the transaction back when the next statement (or COMMIT) is issued: database/sql then
		// answers sql.ErrTxDone. Which of the watcher and the caller wins that race is a matter of goroutine
		// scheduling; the outcome "the watcher won" is produced here deterministically: the context is cancelled,
		// the engine aborts the transaction (as for any failing statement / COMMIT) and the caller gets ErrTxDone.
		if p.cancel != nil {
			p.cancel()
		}
		return sql.ErrTxDone
	}
	return injected(p.Kind)
}

func (p *Probe) Uninstall(e *Env) {
	e.PG.Fault = nil
	e.PG.OnCommit = nil
}

// Program is the measured shape of a request's statement program on a given state: N hook positions
// (statements and commits), Commits = positions at which a writing transaction commits.
type Program struct {
	N       int   `json:"n"`
	Commits []int `json:"commits"`
	// Writes[j]: log rows of the ledger made durable by the j-th writing commit
	Writes  []int    `json:"writes"`
	Kinds   []string `json:"kinds,omitempty"`
	Status  int      `json:"status"`
	OK      bool     `json:"ok"`
	Events  int      `json:"events"`
	Changed bool     `json:"changed"`
	// Hashes[0] = snapshot before the request, Hashes[j] = right after its j-th writing commit
	Hashes []string `json:"hashes"`
	// Counts[j]: per-table row counts of the same states
	Counts []string `json:"counts"`
	Final  string   `json:"final"`
}

// Measure runs rq cleanly on a copy of base and returns its program. A fresh stack checks once per ledger
// that the bucket is up to date (cached afterwards): warm = true performs that first access before the
// measurement, so that the program is the one of an environment that has already served a request.
func Measure(base *Env, worker string, rq Req, warm ...bool) (Program, error) {
	f := base.Fork()
	defer f.Close()
	if len(warm) > 0 && warm[0] {
		f.St.Do(nil, "warm", "GET", "/v2/"+rq.L+"/stats", nil, nil)
	}
	before, err := f.Snapshot()
	if err != nil {
		return Program{}, err
	}
	p := &Probe{Worker: worker, WantHashes: true}
	p.Install(f, rq.L, bucketOf(base, rq.L), nil)
	res := f.Do(context.Background(), worker, rq)
	p.Uninstall(f)
	after, err := f.Snapshot()
	if err != nil {
		return Program{}, err
	}
	writes := []int{}
	prev := -1
	for _, d := range p.Durable {
		if prev < 0 {
			// log rows present before the request
			prev = 0
			if rows, err := base.PG.Dump(bucketOf(base, rq.L), "logs"); err == nil {
				for _, r := range rows {
					if s, ok := r["ledger"].(string); ok && s == rq.L {
						prev++
					}
				}
			}
		}
		writes = append(writes, d.NLogs-prev)
		prev = d.NLogs
	}
	return Program{N: p.N, Commits: append([]int{}, p.Commits...), Writes: writes, Kinds: p.Kinds, Status: res.Status, OK: res.OK,
		Events: len(f.St.Listener.Snapshot()), Changed: before.Hash() != after.Hash(),
		Hashes: append([]string{before.Hash()}, p.Hashes...), Counts: append([]string{before.Counts()}, p.Counts...), Final: after.Hash()}, nil
}

var (
	bucketMu  sync.Mutex
	bucketMap = map[*Env]map[string]string{}
)

// SetBucket remembers which bucket a ledger of env lives in (CreateLedger does not record it).
func SetBucket(e *Env, ledger, bucket string) {
	bucketMu.Lock()
	defer bucketMu.Unlock()
	if bucketMap[e] == nil {
		bucketMap[e] = map[string]string{}
	}
	bucketMap[e][ledger] = bucket
}

func bucketOf(e *Env, ledger string) string {
	bucketMu.Lock()
	defer bucketMu.Unlock()
	if m := bucketMap[e]; m != nil {
		if b, ok := m[ledger]; ok {
			return b
		}
	}
	return "b1"
}

func forgetEnv(e *Env) {
	bucketMu.Lock()
	delete(bucketMap, e)
	bucketMu.Unlock()
}

// FaultObs is what can be observed of one faulted run.
type FaultObs struct {
	Fired     bool   `json:"fired"`
	FiredSQL  string `json:"firedSQL,omitempty"`
	Status    int    `json:"status"`
	OK        bool   `json:"ok"`
	EmptyBody bool   `json:"emptyBody"`
	DumpEqual bool   `json:"dumpEqual"` // pg.Dump snapshot of every table equal before/after
	ObsEqual  bool   `json:"obsEqual"`  // env.Observe equal before/after
	Events    int    `json:"events"`    // listener calls
	EvAfterCm bool   `json:"evAfterCommit"`
	Followup  bool   `json:"followupOK"` // a harmless write sent afterwards is answered 2xx (nothing left locked)
	Hash      string `json:"hash"`       // snapshot hash after the run (comparable within one process only)
	// StateIdx: the indices j such that the snapshot after the run equals the snapshot a clean run of the same
	// request shows after its j-th writing commit (0: the state before the request). Empty: none of them.
	StateIdx []int `json:"stateIdx"`
	// RowsIdx: the same with per-table row counts instead of contents (a transparently retried request ends
	// with other ids than the clean run but must have written exactly as much); Counts is the signature itself
	RowsIdx []int    `json:"rowsIdx"`
	Counts  string   `json:"counts"`
	Diff    []string `json:"diff,omitempty"`
	Res     *ReqRes  `json:"res,omitempty"`
	Incon   string   `json:"inconclusive,omitempty"`
	EvKinds []string `json:"evKinds"`
	EvTx    []int    `json:"evTx"`
}

// RunFaulted runs rq on a copy of base with the fault (at, kind) injected for `worker`. If onlyCommits,
// `at` designates the at-th writing commit (found by a clean measuring run on another copy).
func RunFaulted(base *Env, baseSnap Snapshot, baseObs LedgerObs, worker string, rq Req, at int, kind string, onlyCommits bool, followup bool) FaultObs {
	out := FaultObs{EvKinds: []string{}, EvTx: []int{}}
	pos := at
	if onlyCommits && at > 0 {
		prog, err := Measure(base, worker, rq)
		if err != nil {
			out.Incon = err.Error()
			return out
		}
		if at > len(prog.Commits) {
			out.Incon = fmt.Sprintf("request has %d writing commits, cannot fail commit #%d", len(prog.Commits), at)
			return out
		}
		pos = prog.Commits[at-1]
	}
	f := base.Fork()
	defer f.Close()
	ctx, cancel := context.WithCancel(context.Background())
	defer cancel()
	p := &Probe{Worker: worker, At: pos, Kind: kind}
	p.Install(f, rq.L, bucketOf(base, rq.L), cancel)
	res := f.Do(ctx, worker, rq)
	p.Uninstall(f)
	out.Fired, out.FiredSQL = p.Fired, p.FiredSQL
	out.Status, out.OK, out.EmptyBody = res.Status, res.OK, res.Empty
	out.Res = &res
	// a cancelled context makes database/sql roll the transaction back asynchronously: wait for it
	f.waitIdle()
	after, err := f.Snapshot()
	if err != nil {
		out.Incon = err.Error()
		return out
	}
	out.Hash = after.Hash()
	out.Counts = after.Counts()
	out.DumpEqual = out.Hash == baseSnap.Hash()
	if !out.DumpEqual {
		out.Diff = SnapDiff(baseSnap, after)
	}
	obs, err := f.Observe(rq.L)
	if err != nil {
		out.Incon = "observe: " + err.Error()
		return out
	}
	a, _ := json.Marshal(baseObs)
	b, _ := json.Marshal(obs)
	out.ObsEqual = string(a) == string(b)
	evs := f.St.Listener.Snapshot()
	out.Events = len(evs)
	out.EvAfterCm = true
	abs := f.NewEvents()
	baseLogs := 0
	if rows, err := base.PG.Dump(bucketOf(base, rq.L), "logs"); err == nil {
		for _, r := range rows {
			if s, ok := r["ledger"].(string); ok && s == rq.L {
				baseLogs++
			}
		}
	}
	for j, ev := range evs {
		out.EvKinds = append(out.EvKinds, ev.Kind)
		out.EvTx = append(out.EvTx, abs[j].Tx)
		// the j-th listener call must come after the commit that made the j-th new log row durable
		ok := false
		for _, d := range p.Durable {
			if d.NLogs >= baseLogs+j+1 {
				ok = ev.CommitN >= d.Seq
				break
			}
		}
		if !ok {
			out.EvAfterCm = false
		}
	}
	if followup {
		probe := Op{K: "acmeta", L: rq.L, Now: rq.Now, Addr: "probe:1", Meta: map[string]string{"p": "q"}}
		probe.Norm()
		fctx, fcancel := context.WithTimeout(context.Background(), 10*time.Second)
		r2 := f.Do(fctx, worker+"-again", Req{K: "single", L: rq.L, Now: rq.Now, Els: []Op{probe}})
		fcancel()
		out.Followup = r2.OK
	}
	if u := f.PG.UnsupportedSeen(); len(u) > 0 {
		out.Incon = fmt.Sprintf("unsupported SQL in pgmodel: %v", u)
	}
	return out
}

// waitIdle waits until no session holds an open transaction (asynchronous rollbacks after a cancelled
// context), for at most one second.
func (e *Env) waitIdle() {
	// database/sql rolls back from a goroutine once the context is done; sending a trivial statement
	// through every pooled connection is not possible, so poll the pool statistics instead.
	deadline := time.Now().Add(time.Second)
	for time.Now().Before(deadline) {
		if e.St.SQL.Stats().InUse == 0 {
			return
		}
		time.Sleep(time.Millisecond)
	}
}

// ---------------------------------------------------------------------------- catalogue of write requests (C07)

// FaultCtx: "inuse" = the ledger already holds the prefix history; "init" = first write on a ledger
// that is still in the initializing state (no prefix).
type CatEntry struct {
	Name   string `json:"name"`
	Ctx    string `json:"ctx"`
	Prefix []Op   `json:"prefix"`
	Req    Req    `json:"req"`
}

func mkCreate(ps []Posting, script bool) Op {
	o := Op{K: "create", Ps: ps, Script: script}
	o.Norm()
	return o
}

// Catalogue returns every write request kind of the sweep, in both contexts where meaningful.
func Catalogue() []CatEntry {
	const l = "l1"
	prefix := []Op{
		{K: "create", L: l, Now: 1, Ps: []Posting{{S: "world", D: "alice", As: "USD", N: 10}}, Ref: "p1", Meta: map[string]string{"k": "v"}},
		{K: "create", L: l, Now: 2, Ps: []Posting{{S: "alice", D: "bob", As: "USD", N: 3}}},
		{K: "acmeta", L: l, Now: 2, Addr: "alice", Meta: map[string]string{"role": "v"}},
	}
	for i := range prefix {
		prefix[i].Norm()
		prefix[i].IKIn = i + 1
	}
	single := func(op Op) Req {
		op.L = l
		op.Norm()
		return Req{K: "single", L: l, Now: 3, Els: []Op{op}}
	}
	bulk := func(atomic, cof bool, els ...Op) Req {
		for i := range els {
			els[i].L = l
			els[i].Norm()
		}
		return Req{K: "bulk", L: l, Now: 3, Atomic: atomic, COF: cof, Els: els}
	}
	cPost := Op{K: "create", Ps: []Posting{{S: "world", D: "carol", As: "USD", N: 5}, {S: "world", D: "orders:1", As: "EUR/2", N: 2}},
		Ref: "r9", IK: "ik9", IKIn: 9, Meta: map[string]string{"k": "w"}, AMeta: map[string]map[string]string{"carol": {"role": "w"}}}
	cBack := Op{K: "create", Ps: []Posting{{S: "world", D: "dave", As: "USD", N: 1}}, Ts: 1}
	cScript := Op{K: "create", Script: true, Ps: []Posting{{S: "world", D: "carol", As: "USD", N: 4}, {S: "carol", D: "bob", As: "USD", N: 1, B: 2}}}
	cV1 := Op{K: "create", API: "v1", Ps: []Posting{{S: "world", D: "carol", As: "USD", N: 2}}}
	cV1s := Op{K: "create", API: "v1:script", Ps: []Posting{{S: "world", D: "carol", As: "USD", N: 2}}}
	acm := Op{K: "acmeta", Addr: "erin", Meta: map[string]string{"k": "v"}}
	unacm := Op{K: "unacmeta", Addr: "alice", Key: "role"}
	rev := Op{K: "revert", ID: 2}
	revF := Op{K: "revert", ID: 1, Force: true, AtEff: true}
	txm := Op{K: "txmeta", ID: 1, Meta: map[string]string{"role": "w"}}
	untxm := Op{K: "untxmeta", ID: 1, Key: "k"}
	var out []CatEntry
	add := func(name string, rq Req, ctxs ...string) {
		for _, c := range ctxs {
			e := CatEntry{Name: name, Ctx: c, Req: rq, Prefix: []Op{}}
			if c == "inuse" {
				e.Prefix = prefix
			}
			out = append(out, e)
		}
	}
	add("create_postings", single(cPost), "inuse", "init")
	add("create_backdated", single(cBack), "inuse")
	add("create_script", single(cScript), "inuse", "init")
	add("create_v1_postings", single(cV1), "inuse", "init")
	add("create_v1_script", single(cV1s), "inuse")
	add("revert", single(rev), "inuse")
	add("revert_force_ateff", single(revF), "inuse")
	add("txmeta", single(txm), "inuse")
	add("untxmeta", single(untxm), "inuse")
	add("acmeta", single(acm), "inuse", "init")
	add("unacmeta", single(unacm), "inuse")
	add("bulk_atomic", bulk(true, false, cPost, txm, acm), "inuse")
	add("bulk_atomic_init", bulk(true, false, cPost, acm), "init")
	add("bulk_sequential", bulk(false, false, cBack, rev, unacm), "inuse")
	add("bulk_sequential_init", bulk(false, false, cScript, acm), "init")
	return out
}

// BuildBase creates an environment holding ledger l1 (bucket b1) with the given prefix applied through
// the single-operation endpoints.
func BuildBase(prefix []Op, features map[string]string, scale string) (*Env, error) {
	env, err := NewEnv(EnvOptions{Scale: scale})
	if err != nil {
		return nil, err
	}
	if err := env.CreateLedger("l1", "b1", features); err != nil {
		env.Close()
		return nil, err
	}
	SetBucket(env, "l1", "b1")
	for _, op := range prefix {
		op.Norm()
		r := env.Exec(context.Background(), "prefix", op)
		if !r.OK {
			env.Close()
			return nil, fmt.Errorf("prefix operation %s failed: %d %s %s", op.K, r.Status, r.Code, r.Msg)
		}
	}
	env.NewEvents()
	return env, nil
}

// CloseBase releases a base environment.
func CloseBase(e *Env) {
	forgetEnv(e)
	e.Close()
}
