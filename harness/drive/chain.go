package drive

import (
	"bytes"
	"encoding/json"

	ledger "github.com/formancehq/ledger/internal"
)

// chainOf recovers, for each observed log (in id order), which log's hash it was chained from, by
// recomputing the documented chain hash with the repository's own Log.ComputeHash against every
// candidate predecessor: 0 = "no predecessor" (first log), an id = chained from that log, -1 = the
// stored hash is reproduced by no candidate (itself a violation of C09), -2 = log not hashed.
func chainOf(logs []LogObs) []int {
	out := make([]int, len(logs))
	parsed := make([]*ledger.Log, len(logs))
	for i, l := range logs {
		var lg ledger.Log
		if err := json.Unmarshal(l.Raw, &lg); err == nil {
			parsed[i] = &lg
		}
	}
	for i, l := range logs {
		if !l.Hashed || parsed[i] == nil {
			out[i] = -2
			continue
		}
		want := parsed[i].Hash
		out[i] = -1
		try := func(prev *ledger.Log) bool {
			cp := *parsed[i]
			cp.Hash = nil
			cp.ComputeHash(prev)
			return bytes.Equal(cp.Hash, want)
		}
		if try(nil) {
			out[i] = 0
			continue
		}
		for j := len(logs) - 1; j >= 0; j-- {
			if j == i || parsed[j] == nil || len(parsed[j].Hash) == 0 {
				continue
			}
			if try(&ledger.Log{Hash: parsed[j].Hash}) {
				out[i] = logs[j].ID
				break
			}
		}
	}
	return out
}
