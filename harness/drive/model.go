// Package drive runs abstract operation histories through the repository's real HTTP API (in process,
// over the pgmodel stand-in database), observes the ledger through the real read API after every step,
// and records NDJSON traces in the vocabulary of spec/Ledger.tla. It contains NO oracle: deciding
// whether an observed step is allowed is TLC's job (spec/TraceLedger.tla).
package drive

import (
	"encoding/json"
	"fmt"
	"math/big"
	"sort"
	"time"
)

// Posting is a requested posting: B is the overdraft allowance of the source (0 default, X>0 "allowing
// overdraft up to X", -1 unbounded / forced).
type Posting struct {
	S  string `json:"s"`
	D  string `json:"d"`
	As string `json:"as"`
	N  int    `json:"n"`
	B  int    `json:"b"`
}

// Op is one abstract operation (all fields always present so that TLC sees uniform records).
type Op struct {
	K      string                       `json:"k"` // create | revert | txmeta | untxmeta | acmeta | unacmeta
	L      string                       `json:"l"` // ledger
	Ps     []Posting                    `json:"ps"`
	Ts     int                          `json:"ts"` // 0 = absent
	Ref    string                       `json:"ref"`
	Meta   map[string]string            `json:"meta"`
	AMeta  map[string]map[string]string `json:"ameta"`
	IK     string                       `json:"ik"`
	IKIn   int                          `json:"ikin"`
	Dry    bool                         `json:"dry"`
	Now    int                          `json:"now"`
	ID     int                          `json:"id"`
	Force  bool                         `json:"force"`
	AtEff  bool                         `json:"atEff"`
	Addr   string                       `json:"addr"`
	Key    string                       `json:"key"`
	Script bool                         `json:"script"` // rendered as Numscript (else as a postings request)
	Src    string                       `json:"src"`    // import: the ledger whose export is imported
	API    string                       `json:"api"`    // v2 (default) | v1
	// script requests only: metadata the script itself sets (set_tx_meta / set_account_meta)
	SMeta  map[string]string            `json:"smeta"`
	SAMeta map[string]map[string]string `json:"sameta"`
	// script requests only: the destination of the LAST posting is passed as the account variable $d with this raw
	// value (possibly padded / malformed); VarOK = the repository's address validator accepts the raw value
	VarD  string `json:"vard"`
	VarOK bool   `json:"varok"`
}

// ScriptOnly drops the fields that only mean something for a request written as a script by the generator
// (script-set metadata, account variable) when the operation is not one: a postings request sent through
// another entry point must not carry them (the specification ignores them unless op.script).
func (o *Op) ScriptOnly() {
	if !o.Script {
		o.SMeta, o.SAMeta, o.VarD, o.VarOK = map[string]string{}, map[string]map[string]string{}, "", false
	}
}

func (o *Op) Norm() {
	if o.Ps == nil {
		o.Ps = []Posting{}
	}
	if o.Meta == nil {
		o.Meta = map[string]string{}
	}
	if o.AMeta == nil {
		o.AMeta = map[string]map[string]string{}
	}
	if o.API == "" {
		o.API = "v2"
	}
	if o.SMeta == nil {
		o.SMeta = map[string]string{}
	}
	if o.SAMeta == nil {
		o.SAMeta = map[string]map[string]string{}
	}
	for a, m := range o.SAMeta {
		if len(m) == 0 {
			delete(o.SAMeta, a) // a script cannot name an account without setting a key on it
		}
	}
}

// Res is the abstract outcome of a request.
type Res struct {
	OK     bool   `json:"ok"`
	Err    string `json:"err"`
	Hit    bool   `json:"hit"`
	ID     int    `json:"id"`
	Status int    `json:"status"`
	Code   string `json:"code"`
	Msg    string `json:"msg,omitempty"`
}

type Vol struct {
	A  string `json:"a"`
	As string `json:"as"`
	I  int    `json:"i"`
	O  int    `json:"o"`
}

type TxObs struct {
	ID      int               `json:"id"`
	Ps      []Posting4        `json:"ps"`
	Ts      int               `json:"ts"`
	Ins     int               `json:"ins"`
	Upd     int               `json:"upd"`
	Ref     string            `json:"ref"`
	Meta    map[string]string `json:"meta"`
	Rev     bool              `json:"rev"`
	RevAt   int               `json:"revAt"`
	Reverts int               `json:"reverts"`
	PCV     []Vol             `json:"pcv"`
	PCEV    []Vol             `json:"pcev"`
	PreCV   []Vol             `json:"precv"`
	WF      bool              `json:"wf"` // every posting well-formed per the repository's validators (C28)
}

type Posting4 struct {
	S  string `json:"s"`
	D  string `json:"d"`
	As string `json:"as"`
	N  int    `json:"n"`
}

type AcctObs struct {
	Addr  string            `json:"addr"`
	First int               `json:"first"`
	Ins   int               `json:"ins"`
	Upd   int               `json:"upd"`
	Meta  map[string]string `json:"meta"`
	Vol   []Vol             `json:"vol"`
	EVol  []Vol             `json:"evol"`
}

type LogObs struct {
	ID     int               `json:"id"`
	Type   string            `json:"type"`
	Date   int               `json:"date"`
	IK     string            `json:"ik"`
	Tx     int               `json:"tx"`
	Tgt    string            `json:"tgt"`
	Key    string            `json:"key"`
	Meta   map[string]string `json:"meta"`
	Hashed bool              `json:"hashed"`
	Hash   string            `json:"h"`
	Raw    json.RawMessage   `json:"-"`
}

// LedgerObs is the API-observable state of one ledger.
type LedgerObs struct {
	Txs   []TxObs   `json:"txs"`
	Accts []AcctObs `json:"accts"`
	Logs  []LogObs  `json:"logs"`
	Vols  []VolB    `json:"vols"`
	Agg   []AggB    `json:"agg"`
	Flags Flags     `json:"flags"`
	// Chain: for each log (id order) the id of the log whose hash it chains from, recovered by recomputing
	// the documented hash with the repository's Log.ComputeHash (0 = none, -1 = not reproducible, -2 = unhashed)
	Chain []int `json:"chain"`
}

// Flags tells the specification which derived observables the ledger's feature set provides.
type Flags struct {
	Moves bool `json:"moves"` // MOVES_HISTORY = ON
	Eff   bool `json:"eff"`   // effective volumes maintained (MOVES_HISTORY = ON and ..._EFFECTIVE_VOLUMES = SYNC)
	EffSync bool `json:"effsync"` // MOVES_HISTORY_POST_COMMIT_EFFECTIVE_VOLUMES = SYNC, whatever MOVES_HISTORY
	Hash  bool `json:"hash"`  // HASH_LOGS = SYNC
	Async bool `json:"async"` // HASH_LOGS = ASYNC: the block builder covers this ledger
	AMH   bool `json:"amh"`   // ACCOUNT_METADATA_HISTORY = SYNC
	TMH   bool `json:"tmh"`   // TRANSACTION_METADATA_HISTORY = SYNC
}

type VolB struct {
	A  string `json:"a"`
	As string `json:"as"`
	I  int    `json:"i"`
	O  int    `json:"o"`
	B  int    `json:"b"`
}

type AggB struct {
	As string `json:"as"`
	B  int    `json:"b"`
}

// Line is one NDJSON trace line.
type Line struct {
	Case  int                  `json:"case"`
	Reset bool                 `json:"reset"`
	Op    Op                   `json:"op"`
	Res   Res                  `json:"res"`
	St    map[string]LedgerObs `json:"st"`
	Ev    []EvObs              `json:"ev"`
	Feat  map[string]string    `json:"feat,omitempty"`
	// concurrent step: Ops were issued concurrently from the state of the last sequential line; St is the
	// state after all of them finished; CSeq their commit ranks (0 = no commit); Chain the hash-chain
	// predecessor recovered for each log of St (id order)
	Conc  bool   `json:"conc"`
	Ops   []Op   `json:"ops"`
	Ress  []Res  `json:"ress"`
	CSeq  []int  `json:"cseq"`
	Chain []int  `json:"chain"`
	Sched string `json:"sched"`
	// Aux marks a line that is not a request on a ledger (e.g. a ledger was created): only the state
	// invariants and the frame condition apply to it
	Aux   bool   `json:"aux"`
	// Group line (C35): core projections of the same history under every feature combination, and the
	// outcome classes of the feature-dependent reads under each of them
	Group bool       `json:"group"`
	Cores []Core     `json:"cores"`
	FRead []FeatRead `json:"fread"`
	// Blk (C34): ledger -> rows of logs_blocks with the re-derived digest, for the ledgers with HASH_LOGS=ASYNC;
	// Quiet: the block builder ran to completion after every request of the line had returned
	Blk   BlkMap `json:"blk"`
	Quiet bool   `json:"quiet"`
	Prop  string `json:"prop"` // property the concurrent scenario family targets (C06, C13, ...)
	Fam   string `json:"fam"`
}

// PropOfFamily maps a concurrent scenario family to the property whose serializability predicate owns it.
func PropOfFamily(f string) string {
	switch {
	case len(f) >= 9 && f[:9] == "overdraft":
		return "C06"
	case len(f) >= 3 && f[:3] == "ik/":
		return "C13"
	case len(f) >= 4 && f[:4] == "ref/":
		return "C14"
	case len(f) >= 7 && f[:7] == "revert/":
		return "C15"
	case len(f) >= 4 && f[:4] == "ids/":
		return "C16"
	case len(f) >= 7 && f[:7] == "import/":
		return "C12"
	case len(f) >= 7 && f[:7] == "blocks/":
		return "C34"
	}
	return ""
}

func (l *Line) Norm() {
	l.Op.Norm()
	if l.Ev == nil {
		l.Ev = []EvObs{}
	}
	if l.Ops == nil {
		l.Ops = []Op{}
	}
	for i := range l.Ops {
		l.Ops[i].Norm()
	}
	if l.Ress == nil {
		l.Ress = []Res{}
	}
	if l.CSeq == nil {
		l.CSeq = []int{}
	}
	if l.Chain == nil {
		l.Chain = []int{}
	}
	if l.Cores == nil {
		l.Cores = []Core{}
	}
	if l.FRead == nil {
		l.FRead = []FeatRead{}
	}
}

type EvObs struct {
	Kind    string `json:"kind"`
	L       string `json:"l"`
	Tx      int    `json:"tx"`
	AfterCm bool   `json:"afterCommit"`
}

// ---------------------------------------------------------------------------- values: time and amounts

var Base = time.Date(2030, 1, 1, 0, 0, 0, 0, time.UTC)

// TimeOf maps a logical instant (>= 1) to a concrete timestamp with a microsecond component.
func TimeOf(u int) time.Time {
	return Base.Add(time.Duration(u)*time.Second + time.Duration(u%7)*1001*time.Microsecond)
}

// InstantOf inverts TimeOf exactly; off-grid timestamps are projection errors.
func InstantOf(t time.Time) (int, error) {
	d := t.UTC().Sub(Base)
	u := int(d / time.Second)
	for _, c := range []int{u, u + 1, u - 1} {
		if c >= 0 && TimeOf(c).Equal(t) {
			return c, nil
		}
	}
	return 0, fmt.Errorf("timestamp %s is not on the logical time grid", t.UTC().Format(time.RFC3339Nano))
}

func ParseInstant(s string) (int, error) {
	t, err := time.Parse(time.RFC3339Nano, s)
	if err != nil {
		return 0, fmt.Errorf("bad timestamp %q: %v", s, err)
	}
	return InstantOf(t)
}

func FmtInstant(u int) string { return TimeOf(u).Format("2006-01-02T15:04:05.000000Z") }

// Scale maps abstract amounts k to concrete amounts k*B.
type Scale struct{ B *big.Int }

var Scales = map[string]string{
	"1":     "1",
	"2p53":  "9007199254740993",                // 2^53+1
	"2p63":  "9223372036854775809",             // 2^63+1
	"2p64":  "18446744073709551617",            // 2^64+1
	"1e30":  "1000000000000000000000000000000", // 10^30
	"prime": "170141183460469231731687303715884105757",
}

func NewScale(name string) Scale {
	s, ok := Scales[name]
	if !ok {
		s = name
	}
	b, ok := new(big.Int).SetString(s, 10)
	if !ok || b.Sign() <= 0 {
		panic("bad scale " + name)
	}
	return Scale{B: b}
}

func (s Scale) Up(k int) *big.Int { return new(big.Int).Mul(big.NewInt(int64(k)), s.B) }

// Down divides exactly; a remainder means a lossy path somewhere (C36).
func (s Scale) Down(v *big.Int) (int, error) {
	q, r := new(big.Int).QuoRem(v, s.B, new(big.Int))
	if r.Sign() != 0 {
		return 0, fmt.Errorf("amount %s is not a multiple of the scale %s (precision lost)", v, s.B)
	}
	if !q.IsInt64() || q.Int64() > 1<<30 || q.Int64() < -(1<<30) {
		return 0, fmt.Errorf("amount %s / scale out of abstract range", v)
	}
	return int(q.Int64()), nil
}

func sortVols(v []Vol) {
	sort.Slice(v, func(i, j int) bool {
		if v[i].A != v[j].A {
			return v[i].A < v[j].A
		}
		return v[i].As < v[j].As
	})
}
