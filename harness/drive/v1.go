package drive

// Request rendering for every entry point of the write API (v2 and v1, postings, inline scripts, script
// variables in their three JSON encodings) and the amount read-backs of property C36.
//
// Op.API selects the entry point of a create operation:
//
//	v2                 POST /v2/{l}/transactions, postings or (Op.Script) Numscript with inline literals
//	v2:vars-str        script whose amounts are monetary variables given as strings "USD 123"
//	v2:vars-obj-str    ... given as {"asset":"USD","amount":"123"}
//	v2:vars-obj-num    ... given as {"asset":"USD","amount":123}            (JSON number)
//	v1                 POST /{l}/transactions, postings
//	v1:script          v1, Numscript with inline literals
//	v1:vars-str        v1, monetary variables given as strings
//	v1:vars-obj-num    v1, monetary variables given as {"asset":..,"amount":123} (JSON number)
//
// Other operation kinds use the v1 routes when Op.API starts with "v1", the v2 routes otherwise.

import (
	"context"
	"encoding/json"
	"fmt"
	"hash/fnv"
	"math/big"
	"net/url"
	"sort"
	"strconv"
	"strings"

	"github.com/formancehq/ledger/verifharness/stack"
)

func apiFamily(op Op) string {
	if strings.HasPrefix(op.API, "v1") {
		return "v1"
	}
	return "v2"
}

// previewSpellings: every spelling of the v1 `preview` parameter that means "dry run" (v1 getCommandParameters:
// YES or TRUE in any case, or 1).
var previewSpellings = []string{"yes", "TRUE", "1", "YES", "true", "Yes", "True", "yEs"}

// previewSpelling picks the spelling of a v1 dry run deterministically from the operation, so that the
// different requests of a run exercise different spellings.
func previewSpelling(op Op) string {
	h := fnv.New32a()
	fmt.Fprintf(h, "%s|%s|%d|%d|%s|%d", op.K, op.API, op.Now, op.ID, op.Ref, len(op.Ps))
	for _, p := range op.Ps {
		fmt.Fprintf(h, "|%s>%s:%s:%d", p.S, p.D, p.As, p.N)
	}
	return previewSpellings[int(h.Sum32()%uint32(len(previewSpellings)))]
}

func apiMode(op Op) string {
	if i := strings.Index(op.API, ":"); i >= 0 {
		return op.API[i+1:]
	}
	return ""
}

// renderVarsScript renders the postings as a script whose amounts are monetary variables $m0, $m1...
func (e *Env) renderVarsScript(ps []Posting, mode string) (string, map[string]any) {
	var sb strings.Builder
	vars := map[string]any{}
	sb.WriteString("vars {\n")
	for i := range ps {
		fmt.Fprintf(&sb, "  monetary $m%d\n", i)
	}
	sb.WriteString("}\n")
	for i, p := range ps {
		amt := e.Scale.Up(p.N)
		src := "@" + p.S
		switch {
		case p.S == "world":
		case p.B < 0:
			src += " allowing unbounded overdraft"
		case p.B > 0:
			src += fmt.Sprintf(" allowing overdraft up to [%s %s]", p.As, e.Scale.Up(p.B).String())
		}
		fmt.Fprintf(&sb, "send $m%d (\n  source = %s\n  destination = @%s\n)\n", i, src, p.D)
		name := fmt.Sprintf("m%d", i)
		switch mode {
		case "vars-str":
			vars[name] = p.As + " " + amt.String()
		case "vars-obj-str":
			vars[name] = map[string]any{"asset": p.As, "amount": amt.String()}
		default: // vars-obj-num
			vars[name] = map[string]any{"asset": p.As, "amount": rawNum(amt)}
		}
	}
	return sb.String(), vars
}

// createBody renders the body of a create-transaction request (also used for bulk elements).
func (e *Env) createBody(op Op, q url.Values) map[string]any {
	op.ScriptOnly()
	body := map[string]any{}
	mode := apiMode(op)
	switch {
	case op.Script && op.VarD != "":
		// the destination of the last posting travels as an account variable (possibly malformed): same request on every API
		body["script"] = map[string]any{"plain": e.RenderScriptVarD(op.Ps) + RenderScriptMeta(op), "vars": map[string]any{"d": op.VarD}}
	case strings.HasPrefix(mode, "vars-"):
		plain, vars := e.renderVarsScript(op.Ps, mode)
		plain += RenderScriptMeta(op)
		body["script"] = map[string]any{"plain": plain, "vars": vars}
	case op.Script || mode == "script":
		body["script"] = map[string]any{"plain": e.RenderScript(op.Ps) + RenderScriptMeta(op), "vars": map[string]any{}}
	default:
		ps := make([]any, 0, len(op.Ps))
		force := false
		for _, p := range op.Ps {
			ps = append(ps, map[string]any{"source": p.S, "destination": p.D, "asset": p.As, "amount": rawNum(e.Scale.Up(p.N))})
			if p.B < 0 && p.S != "world" {
				force = true
			}
		}
		body["postings"] = ps
		if force {
			if q != nil {
				q.Set("force", "true")
			} else {
				body["force"] = true
			}
		}
	}
	if op.Ts != 0 {
		body["timestamp"] = FmtInstant(op.Ts)
	}
	if op.Ref != "" {
		body["reference"] = op.Ref
	}
	body["metadata"] = op.Meta
	if len(op.AMeta) > 0 && apiFamily(op) == "v2" {
		body["accountMetadata"] = op.AMeta
	}
	return body
}

// HTTPReq is a concrete request.
type HTTPReq struct {
	Method string            `json:"method"`
	Path   string            `json:"path"`
	Body   any               `json:"body,omitempty"`
	Hdr    map[string]string `json:"hdr,omitempty"`
}

// Render maps an abstract operation to the concrete request of its entry point.
func (e *Env) Render(op Op) (HTTPReq, error) {
	op.Norm()
	hdr := map[string]string{}
	if op.IK != "" {
		hdr["Idempotency-Key"] = op.IK
	}
	fam := apiFamily(op)
	prefix := "/v2/" + op.L
	q := url.Values{}
	if fam == "v1" {
		prefix = "/" + op.L
		if op.Dry {
			q.Set("preview", previewSpelling(op))
		}
	} else if op.Dry {
		q.Set("dryRun", "true")
	}
	enc := func(p string) string {
		if len(q) == 0 {
			return p
		}
		return p + "?" + q.Encode()
	}
	switch op.K {
	case "create":
		body := e.createBody(op, q)
		return HTTPReq{"POST", enc(prefix + "/transactions"), body, hdr}, nil
	case "revert":
		if op.Force {
			if fam == "v1" {
				q.Set("disableChecks", "true")
			} else {
				q.Set("force", "true")
			}
		}
		if op.AtEff && fam == "v2" {
			q.Set("atEffectiveDate", "true")
		}
		var body any
		if len(op.Meta) > 0 && fam == "v2" {
			body = map[string]any{"metadata": op.Meta}
		}
		return HTTPReq{"POST", enc(fmt.Sprintf("%s/transactions/%d/revert", prefix, op.ID)), body, hdr}, nil
	case "txmeta":
		return HTTPReq{"POST", enc(fmt.Sprintf("%s/transactions/%d/metadata", prefix, op.ID)), op.Meta, hdr}, nil
	case "untxmeta":
		return HTTPReq{"DELETE", enc(fmt.Sprintf("%s/transactions/%d/metadata/%s", prefix, op.ID, url.PathEscape(op.Key))), nil, hdr}, nil
	case "acmeta":
		return HTTPReq{"POST", enc(fmt.Sprintf("%s/accounts/%s/metadata", prefix, url.PathEscape(op.Addr))), op.Meta, hdr}, nil
	case "unacmeta":
		return HTTPReq{"DELETE", enc(fmt.Sprintf("%s/accounts/%s/metadata/%s", prefix, url.PathEscape(op.Addr), url.PathEscape(op.Key))), nil, hdr}, nil
	}
	return HTTPReq{}, fmt.Errorf("unknown operation kind %q", op.K)
}

// ExecFull is Exec for every entry point, returning the raw response too.
func (e *Env) ExecFull(ctx context.Context, worker string, op Op) (Res, *stack.Resp) {
	op.Norm()
	e.SetNow(op.Now)
	rq, err := e.Render(op)
	if err != nil {
		return Res{Err: "harness", Msg: err.Error()}, &stack.Resp{}
	}
	r := e.St.Do(ctx, worker, rq.Method, rq.Path, rq.Body, rq.Hdr)
	res := e.classify(op, r)
	if res.OK && apiFamily(op) == "v1" && (op.K == "create" || op.K == "revert") {
		// v1 answers {"data": [ {txid: ...} ]} (create) or {"data": {txid: ...}} (revert)
		res.ID = 0
		if v, err := r.JSON(); err == nil {
			if m, ok := v.(map[string]any); ok {
				var tx map[string]any
				switch d := m["data"].(type) {
				case []any:
					if len(d) > 0 {
						tx, _ = d[0].(map[string]any)
					}
				case map[string]any:
					tx = d
				}
				if tx != nil {
					if id, ok := tx["txid"].(json.Number); ok {
						n, _ := strconv.Atoi(string(id))
						res.ID = n
					}
				}
			}
		}
	}
	return res, r
}

// ---------------------------------------------------------------------------- C36: amount read-backs

// AmtReads are the amount-carrying reads of one ledger that Observe does not already perform: the v1
// views and the balance filters, projected to the abstract domain (exact division by the scale).
type AmtReads struct {
	V1Bal  []VolB       `json:"v1bal"`  // GET /{l}/balances            (I, O unused: balance only)
	V1Agg  []AggB       `json:"v1agg"`  // GET /{l}/aggregate/balances
	V1Acct []Vol        `json:"v1acct"` // GET /{l}/accounts/{a}: volumes
	V1Txs  []V1Tx       `json:"v1txs"`  // GET /{l}/transactions: postings + post-commit volumes
	Filt   []FilterRead `json:"filt"`   // GET /v2/{l}/accounts?query={"$op":{"balance[as]":k*B}}
	Sums   []SumRead    `json:"sums"`   // GET /v2/{l}/aggregate/balances?query={"$match":{"address":a}}
}

type V1Tx struct {
	ID  int        `json:"id"`
	Ps  []Posting4 `json:"ps"`
	PCV []Vol      `json:"pcv"`
}

// FilterRead: the accounts whose balance of asset As satisfies Cmp K (abstract amount).
type FilterRead struct {
	As  string   `json:"as"`
	Cmp string   `json:"cmp"` // $lt | $lte | $gt | $gte | $match
	K   int      `json:"k"`
	Got []string `json:"got"`
	Via string   `json:"via"` // accounts | volumes
}

type SumRead struct {
	Addr string `json:"addr"` // address pattern
	Agg  []AggB `json:"agg"`
}

func (e *Env) getJSON(path string) (any, error) {
	r := e.St.Do(nil, "obs", "GET", path, nil, nil)
	if r.Status != 200 {
		return nil, &obsErr{fmt.Sprintf("GET %s -> %d %s", path, r.Status, string(r.Body))}
	}
	return r.JSON()
}

// ReadAmounts performs the C36 read-backs. ks: abstract thresholds for the balance filters.
func (e *Env) ReadAmounts(l string, ks []int, assets []string, addrs []string) (AmtReads, error) {
	out := AmtReads{V1Bal: []VolB{}, V1Agg: []AggB{}, V1Acct: []Vol{}, V1Txs: []V1Tx{}, Filt: []FilterRead{}, Sums: []SumRead{}}
	// v1 balances
	bals, err := e.getAll("/" + l + "/balances?pageSize=100")
	if err != nil {
		return out, err
	}
	for _, x := range bals {
		m, _ := x.(map[string]any)
		for a, y := range m {
			am, _ := y.(map[string]any)
			for as, v := range am {
				b, err := e.num(v)
				if err != nil {
					return out, fmt.Errorf("v1 balances: %w", err)
				}
				out.V1Bal = append(out.V1Bal, VolB{A: a, As: as, B: b})
			}
		}
	}
	sort.Slice(out.V1Bal, func(i, j int) bool {
		if out.V1Bal[i].A != out.V1Bal[j].A {
			return out.V1Bal[i].A < out.V1Bal[j].A
		}
		return out.V1Bal[i].As < out.V1Bal[j].As
	})
	// v1 aggregate
	v, err := e.getJSON("/" + l + "/aggregate/balances")
	if err != nil {
		return out, err
	}
	if d, ok := v.(map[string]any)["data"].(map[string]any); ok {
		for as, x := range d {
			b, err := e.num(x)
			if err != nil {
				return out, fmt.Errorf("v1 aggregate: %w", err)
			}
			out.V1Agg = append(out.V1Agg, AggB{As: as, B: b})
		}
	}
	sort.Slice(out.V1Agg, func(i, j int) bool { return out.V1Agg[i].As < out.V1Agg[j].As })
	// v1 account volumes
	for _, a := range addrs {
		v, err := e.getJSON("/" + l + "/accounts/" + url.PathEscape(a))
		if err != nil {
			return out, err
		}
		d, _ := v.(map[string]any)["data"].(map[string]any)
		if d == nil {
			continue
		}
		vols, err := e.assetVols(d["volumes"], a)
		if err != nil {
			return out, fmt.Errorf("v1 account %s: %w", a, err)
		}
		out.V1Acct = append(out.V1Acct, vols...)
		// balances map must agree with the volumes
		if bm, ok := d["balances"].(map[string]any); ok {
			for as, x := range bm {
				b, err := e.num(x)
				if err != nil {
					return out, fmt.Errorf("v1 account %s balances: %w", a, err)
				}
				for _, vv := range vols {
					if vv.As == as && vv.I-vv.O != b {
						return out, fmt.Errorf("v1 account %s: balance %d of %s != input - output %d", a, b, as, vv.I-vv.O)
					}
				}
			}
		}
	}
	// v1 transactions
	txs, err := e.getAll("/" + l + "/transactions?pageSize=100")
	if err != nil {
		return out, err
	}
	for _, x := range txs {
		m, _ := x.(map[string]any)
		t := V1Tx{ID: plainInt(m["txid"]), Ps: []Posting4{}}
		ps, _ := m["postings"].([]any)
		for _, y := range ps {
			pm, _ := y.(map[string]any)
			p := Posting4{}
			p.S, _ = pm["source"].(string)
			p.D, _ = pm["destination"].(string)
			p.As, _ = pm["asset"].(string)
			if p.N, err = e.num(pm["amount"]); err != nil {
				return out, fmt.Errorf("v1 transactions: %w", err)
			}
			t.Ps = append(t.Ps, p)
		}
		if t.PCV, err = e.volsOf(m["postCommitVolumes"]); err != nil {
			return out, fmt.Errorf("v1 transactions pcv: %w", err)
		}
		out.V1Txs = append(out.V1Txs, t)
	}
	sort.Slice(out.V1Txs, func(i, j int) bool { return out.V1Txs[i].ID < out.V1Txs[j].ID })
	// v2 balance filters
	for _, as := range assets {
		for _, k := range ks {
			for _, cmp := range []string{"$lt", "$lte", "$gt", "$gte", "$match"} {
				thr := e.Scale.Up(k)
				for _, via := range []string{"accounts", "volumes"} {
					qs := fmt.Sprintf(`{"%s":{"balance[%s]":%s}}`, cmp, as, thr.String())
					items, err := e.getAll("/v2/" + l + "/" + via + "?pageSize=100&query=" + url.QueryEscape(qs))
					if err != nil {
						return out, fmt.Errorf("balance filter %s: %w", qs, err)
					}
					got := map[string]bool{}
					for _, x := range items {
						m, _ := x.(map[string]any)
						if via == "accounts" {
							a, _ := m["address"].(string)
							got[a] = true
						} else {
							a, _ := m["account"].(string)
							asset, _ := m["asset"].(string)
							if asset == as {
								got[a] = true
							}
						}
					}
					fr := FilterRead{As: as, Cmp: cmp, K: k, Got: []string{}, Via: via}
					for a := range got {
						fr.Got = append(fr.Got, a)
					}
					sort.Strings(fr.Got)
					out.Filt = append(out.Filt, fr)
				}
			}
		}
	}
	// aggregated sums restricted by address
	for _, pat := range []string{"orders:", "alice"} {
		qs := fmt.Sprintf(`{"$match":{"address":"%s"}}`, pat)
		v, err := e.getJSON("/v2/" + l + "/aggregate/balances?query=" + url.QueryEscape(qs))
		if err != nil {
			return out, err
		}
		sr := SumRead{Addr: pat, Agg: []AggB{}}
		if d, ok := v.(map[string]any)["data"].(map[string]any); ok {
			for as, x := range d {
				b, err := e.num(x)
				if err != nil {
					return out, fmt.Errorf("aggregate %s: %w", pat, err)
				}
				sr.Agg = append(sr.Agg, AggB{As: as, B: b})
			}
		}
		sort.Slice(sr.Agg, func(i, j int) bool { return sr.Agg[i].As < sr.Agg[j].As })
		out.Sums = append(out.Sums, sr)
	}
	return out, nil
}

// AmtLine is a TraceLedger line extended with the amount read-backs (validated by spec/TraceAmounts.tla).
type AmtLine struct {
	Line
	Reads AmtReads `json:"reads"`
	Via   string   `json:"via"`
}

// AmtCase: one abstract history executed through one entry point at one scale.
type AmtCase struct {
	N     int    `json:"case"`
	Seed  int64  `json:"seed"`
	Scale string `json:"scale"`
	Via   string `json:"via"` // Op.API of the create operations, or "bulk" / "bulk:<mode>"
	Ops   []Op   `json:"ops"`
}

// AmountHistory generates the abstract history of seed: creates through the chosen entry point, with
// a few reverts and metadata writes in between; amounts 0..4.
func AmountHistory(seed int64, n int) []Op {
	g := NewGen(seed, "l1")
	ops := []Op{}
	for i := 0; len(ops) < n; i++ {
		op := g.Next(i)
		if op.K == "unacmeta" || op.K == "untxmeta" {
			continue
		}
		op.IK = ""
		op.IKIn = 0
		op.Dry = false
		ops = append(ops, op)
	}
	return ops
}

// ViaSupports tells whether the entry point can express the operation (v1 has no forced postings, no
// account metadata on create, no atEffectiveDate).
func viaAdapt(op Op, via string) Op {
	// the histories are shared by the cases of every entry point and scale: never write through op's slices
	op.Ps = append([]Posting(nil), op.Ps...)
	if op.K != "create" {
		if strings.HasPrefix(via, "v1") {
			op.API = "v1"
			if op.K == "revert" {
				op.AtEff = false
				op.Meta = map[string]string{}
			}
		}
		return op
	}
	base := via
	if strings.HasPrefix(via, "bulk") {
		base = "v2"
		if i := strings.Index(via, ":"); i >= 0 {
			base = "v2:" + via[i+1:]
		}
	}
	op.API = base
	op.Script = false
	if strings.HasPrefix(base, "v1") {
		op.AMeta = map[string]map[string]string{}
	}
	mode := apiMode(op)
	if mode == "" {
		// postings request: overdraft allowances other than "forced" cannot be expressed; v1 cannot force
		for i := range op.Ps {
			if strings.HasPrefix(base, "v1") || op.Ps[i].B > 0 {
				op.Ps[i].B = 0
			}
		}
		forced := false
		for _, p := range op.Ps {
			if p.B < 0 && p.S != "world" {
				forced = true
			}
		}
		if forced {
			for i := range op.Ps {
				if op.Ps[i].S != "world" {
					op.Ps[i].B = -1
				}
			}
		}
	}
	return op
}

// RunAmountCase executes the case and returns its trace (first line: reset).
func RunAmountCase(c AmtCase) ([]AmtLine, error) {
	env, err := NewEnv(EnvOptions{Scale: c.Scale})
	if err != nil {
		return nil, &Inconclusive{Msg: "bootstrap: " + err.Error()}
	}
	defer env.Close()
	if err := env.CreateLedger("l1", "b1", nil); err != nil {
		return nil, &Inconclusive{Msg: err.Error()}
	}
	ks := []int{0, 1, 2, 3}
	observe := func() (map[string]LedgerObs, AmtReads, error) {
		o, err := env.Observe("l1")
		if err != nil {
			return nil, AmtReads{}, err
		}
		addrs := []string{}
		for _, a := range o.Accts {
			addrs = append(addrs, a.Addr)
		}
		rd, err := env.ReadAmounts("l1", ks, GenAssets, addrs)
		if err != nil {
			return nil, AmtReads{}, err
		}
		return map[string]LedgerObs{"l1": o}, rd, nil
	}
	st0, rd0, err := observe()
	if err != nil {
		return nil, obsFailure(env, err)
	}
	reset := AmtLine{Line: Line{Case: c.N, Reset: true, St: st0, Ev: []EvObs{}}, Reads: rd0, Via: c.Via}
	reset.Op.Norm()
	reset.Line.Norm()
	lines := []AmtLine{reset}
	ctx := context.Background()
	for _, op0 := range c.Ops {
		op := viaAdapt(op0, c.Via)
		op.Norm()
		_, cm0 := env.PG.Counters()
		var res Res
		if strings.HasPrefix(c.Via, "bulk") && op.K == "create" {
			rr := env.ExecBulk(ctx, "w1", Req{K: "bulk", L: "l1", Now: op.Now, Els: []Op{op}})
			if len(rr.Els) == 1 {
				er := rr.Els[0]
				res = Res{OK: er.OK, Err: er.Err, ID: er.ID, Status: rr.Status, Code: er.Code, Msg: er.Msg}
			} else {
				res = Res{Err: "internal", Status: rr.Status, Code: rr.Code}
			}
		} else {
			res, _ = env.ExecFull(ctx, "w1", op)
		}
		evs := env.NewEvents()
		raw := env.St.Listener.Snapshot()
		for j := range evs {
			k := len(raw) - len(evs) + j
			evs[j].AfterCm = raw[k].CommitN > cm0
		}
		st, rd, err := observe()
		if err != nil {
			return nil, obsFailure(env, err)
		}
		// the abstract operation recorded is entry-point independent
		rec := op
		rec.API = "v2"
		rec.Script = false
		al := AmtLine{Line: Line{Case: c.N, Op: rec, Res: res, St: st, Ev: evs}, Reads: rd, Via: c.Via}
		al.Line.Norm()
		lines = append(lines, al)
	}
	if u := env.PG.UnsupportedSeen(); len(u) > 0 {
		return nil, &Inconclusive{Msg: fmt.Sprintf("unsupported SQL in pgmodel: %v", u)}
	}
	return lines, nil
}

// ProbeAmount sends one create through `via` with the concrete amount `amt` and reports the amount the
// ledger recorded (exact strings; no scale involved). Used to document lossy entry points.
func ProbeAmount(via string, amt *big.Int) (map[string]any, error) {
	env, err := NewEnv(EnvOptions{Scale: amt.String()})
	if err != nil {
		return nil, err
	}
	defer env.Close()
	if err := env.CreateLedger("l1", "b1", nil); err != nil {
		return nil, err
	}
	op := viaAdapt(Op{K: "create", L: "l1", Now: 1, Ps: []Posting{{S: "world", D: "alice", As: "USD", N: 1}}}, via)
	op.Norm()
	var rq HTTPReq
	var resp *stack.Resp
	if strings.HasPrefix(via, "bulk") {
		el := env.bulkElement(op)
		rq = HTTPReq{Method: "POST", Path: "/v2/l1/_bulk", Body: []any{el}}
	} else {
		rq, err = env.Render(op)
		if err != nil {
			return nil, err
		}
	}
	resp = env.APIDo(nil, "w1", rq.Method, rq.Path, rq.Body, rq.Hdr)
	out := map[string]any{"via": via, "sent": amt.String(), "request": rq, "status": resp.Status}
	b, _ := json.Marshal(rq.Body)
	out["body"] = string(b)
	rb := string(resp.Body)
	if len(rb) > 600 {
		rb = rb[:600]
	}
	out["response"] = rb
	r := env.St.Do(nil, "obs", "GET", "/v2/l1/transactions?pageSize=10", nil, nil)
	recorded := []string{}
	if v, err := r.JSON(); err == nil && v != nil {
		if cur, ok := v.(map[string]any)["cursor"].(map[string]any); ok {
			data, _ := cur["data"].([]any)
			for _, x := range data {
				m, _ := x.(map[string]any)
				ps, _ := m["postings"].([]any)
				for _, y := range ps {
					pm, _ := y.(map[string]any)
					if n, ok := pm["amount"].(json.Number); ok {
						recorded = append(recorded, string(n))
					}
				}
			}
		}
	}
	out["recorded"] = recorded
	return out, nil
}
