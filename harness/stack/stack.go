// Package stack assembles the repository's real storage driver, system controller and ledger
// controllers over the pgmodel stand-in database.
package stack

import (
	"context"
	"database/sql"
	"fmt"
	"net/http"
	"sync"

	"github.com/uptrace/bun"
	"github.com/uptrace/bun/dialect/pgdialect"
	nooptracer "go.opentelemetry.io/otel/trace/noop"

	"github.com/formancehq/go-libs/v5/pkg/types/metadata"

	ledger "github.com/formancehq/ledger/internal"
	ledgercontroller "github.com/formancehq/ledger/internal/controller/ledger"
	systemcontroller "github.com/formancehq/ledger/internal/controller/system"
	"github.com/formancehq/ledger/internal/storage/bucket"
	"github.com/formancehq/ledger/internal/storage/driver"
	ledgerstore "github.com/formancehq/ledger/internal/storage/ledger"
	systemstore "github.com/formancehq/ledger/internal/storage/system"
	"github.com/formancehq/ledger/verifharness/pgmodel"
)

// Event is one listener call, stamped with the engine's commit counter at the time of the call.
type Event struct {
	Kind    string
	Ledger  string
	Payload any
	CommitN int64
	StmtN   int64
}

// RecListener records every call of the ledger controller's Listener.
type RecListener struct {
	mu     sync.Mutex
	pg     *pgmodel.DB
	Events []Event
}

func (l *RecListener) add(kind, ledgerName string, payload any) {
	l.mu.Lock()
	defer l.mu.Unlock()
	st, cm := l.pg.Counters()
	l.Events = append(l.Events, Event{Kind: kind, Ledger: ledgerName, Payload: payload, CommitN: cm, StmtN: st})
}

func (l *RecListener) Snapshot() []Event {
	l.mu.Lock()
	defer l.mu.Unlock()
	return append([]Event(nil), l.Events...)
}

func (l *RecListener) CommittedTransactions(ctx context.Context, ledgerName string, res ledger.Transaction, accountMetadata ledger.AccountMetadata) {
	l.add("committed_transaction", ledgerName, map[string]any{"tx": res, "accountMetadata": accountMetadata})
}
func (l *RecListener) SavedMetadata(ctx context.Context, ledgerName string, targetType, id string, m metadata.Metadata) {
	l.add("saved_metadata", ledgerName, map[string]any{"targetType": targetType, "id": id, "metadata": m})
}
func (l *RecListener) RevertedTransaction(ctx context.Context, ledgerName string, reverted, revert ledger.Transaction) {
	l.add("reverted_transaction", ledgerName, map[string]any{"reverted": reverted, "revert": revert})
}
func (l *RecListener) DeletedMetadata(ctx context.Context, ledgerName string, targetType string, targetID any, key string) {
	l.add("deleted_metadata", ledgerName, map[string]any{"targetType": targetType, "id": targetID, "key": key})
}
func (l *RecListener) InsertedSchema(ctx context.Context, ledgerName string, data ledger.Schema) {
	l.add("inserted_schema", ledgerName, map[string]any{"schema": data})
}

var _ ledgercontroller.Listener = (*RecListener)(nil)

type Stack struct {
	PG       *pgmodel.DB
	SQL      *sql.DB
	Bun      *bun.DB
	Driver   *driver.Driver
	Sys      *systemcontroller.DefaultController
	Listener *RecListener
	router   http.Handler
}

type Options struct {
	SchemaEnforcement ledgercontroller.SchemaEnforcementMode
	MaxOpenConns      int
}

// Open builds the stack over an existing (migrated or empty) pgmodel database.
func Open(pg *pgmodel.DB, opts Options) *Stack {
	sqldb := sql.OpenDB(&pgmodel.Connector{DB: pg})
	if opts.MaxOpenConns > 0 {
		sqldb.SetMaxOpenConns(opts.MaxOpenConns)
	}
	db := bun.NewDB(sqldb, pgdialect.New(), bun.WithDiscardUnknownColumns())
	db.Dialect().Tables().Register(
		&ledger.Transaction{},
		&ledger.Log{},
		&ledger.Account{},
		&ledger.Move{},
		&ledger.Ledger{},
	)
	d := driver.New(db, ledgerstore.NewFactory(db), bucket.NewDefaultFactory(), systemstore.NewStoreFactory())
	l := &RecListener{pg: pg}
	mode := opts.SchemaEnforcement
	if mode == "" {
		mode = ledgercontroller.SchemaEnforcementAudit
	}
	sys := systemcontroller.NewDefaultController(
		systemcontroller.NewControllerStorageDriverAdapter(d, systemstore.New(db)),
		l,
		nil,
		systemcontroller.WithEnableFeatures(true),
		systemcontroller.WithSchemaEnforcementMode(mode),
	)
	return &Stack{PG: pg, SQL: sqldb, Bun: db, Driver: d, Sys: sys, Listener: l}
}

func (s *Stack) Close() { _ = s.SQL.Close() }

// Bootstrap creates a database with the system schema migrated and the given buckets migrated (no
// ledgers). The repository's own migrators run unmodified; they run inside a transaction because the
// non-transactional path of the go-libs migrator needs a pgx connection for LISTEN/NOTIFY.
func Bootstrap(ctx context.Context, buckets ...string) (*pgmodel.DB, error) {
	pg := pgmodel.NewDB()
	st := Open(pg, Options{})
	defer st.Close()
	// one fresh session per migration run: the legacy migrations leave session-scoped temporary tables
	// behind (e.g. transactions_ids), which would collide when a pooled connection migrates a second bucket
	st.SQL.SetMaxIdleConns(0)
	err := st.Bun.RunInTx(ctx, nil, func(ctx context.Context, tx bun.Tx) error {
		if err := systemstore.New(tx).Migrate(ctx); err != nil {
			return fmt.Errorf("system migrations: %w", err)
		}
		return nil
	})
	if err != nil {
		return nil, err
	}
	for _, b := range buckets {
		err := st.Bun.RunInTx(ctx, nil, func(ctx context.Context, tx bun.Tx) error {
			return bucket.NewDefault(nooptracer.Tracer{}, b).Migrate(ctx, tx)
		})
		if err != nil {
			return nil, fmt.Errorf("bucket %s migrations: %w", b, err)
		}
	}
	if u := pg.UnsupportedSeen(); len(u) > 0 {
		return nil, fmt.Errorf("unsupported SQL during bootstrap: %v", u)
	}
	return pg, nil
}
