package stack

import (
	"bytes"
	"context"
	"encoding/json"
	"io"
	"net/http"
	"net/http/httptest"
	"os"
	"strings"
	"sync"

	"github.com/formancehq/go-libs/v5/pkg/authn/jwt"
	logging "github.com/formancehq/go-libs/v5/pkg/observe/log"

	"github.com/formancehq/ledger/internal/api"
	"github.com/formancehq/ledger/internal/api/bulking"
	"github.com/formancehq/ledger/verifharness/pgmodel"
)

// Resp is an HTTP response of the in-process router.
type Resp struct {
	Status int
	Header http.Header
	Body   []byte
}

// JSON decodes the body keeping numbers exact (json.Number).
func (r *Resp) JSON() (any, error) {
	if len(bytes.TrimSpace(r.Body)) == 0 {
		return nil, nil
	}
	dec := json.NewDecoder(bytes.NewReader(r.Body))
	dec.UseNumber()
	var v any
	err := dec.Decode(&v)
	return v, err
}

var routerOnce sync.Mutex

var quietLogger = logging.NewDefaultLogger(io.Discard, false, false, false)

// Router returns the repository's real HTTP router over this stack's system controller.
func (s *Stack) Router() http.Handler {
	routerOnce.Lock()
	defer routerOnce.Unlock()
	if s.router == nil {
		s.router = api.NewRouter(s.Sys, jwt.NewNoAuth(), nil, "verif", os.Getenv("VH_DEBUG") != "",
			api.WithExporters(false),
			// production wires the bulker factory in internal/api/module.go; without it /_bulk nil-derefs
			api.WithBulkerFactory(bulking.NewDefaultBulkerFactory(bulking.WithParallelism(10))),
		)
	}
	return s.router
}

// Do issues one request against the in-process router. worker tags every SQL statement the request
// causes (gate / fault injection / tracing).
func (s *Stack) Do(ctx context.Context, worker, method, path string, body any, headers map[string]string) *Resp {
	var rd io.Reader
	switch b := body.(type) {
	case nil:
	case string:
		rd = strings.NewReader(b)
	case []byte:
		rd = bytes.NewReader(b)
	default:
		data, err := json.Marshal(b)
		if err != nil {
			panic(err)
		}
		rd = bytes.NewReader(data)
	}
	if ctx == nil {
		ctx = context.Background()
	}
	ctx = pgmodel.WithWorker(ctx, worker)
	ctx = logging.ContextWithLogger(ctx, quietLogger)
	req := httptest.NewRequest(method, path, rd).WithContext(ctx)
	if rd != nil {
		req.Header.Set("Content-Type", "application/json")
	}
	for k, v := range headers {
		req.Header.Set(k, v)
	}
	rec := httptest.NewRecorder()
	s.Router().ServeHTTP(rec, req)
	return &Resp{Status: rec.Code, Header: rec.Header(), Body: rec.Body.Bytes()}
}
