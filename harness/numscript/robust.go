package numscript

import (
	"crypto/sha1"
	"encoding/hex"
	"fmt"
	"regexp"
	"sort"
	"strings"
	"sync"
)

// C27 (run-time half): for every well-typed program supplied by the specification, run
//   - the well-typed baseline,
//   - ill-typed / missing / negative / malformed variable bindings,
//   - stores that do not answer the balance query properly ("missing balances"),
//   - every single-token deletion and duplication of the rendered text,
// through MachineNumscriptRuntimeAdapter and DefaultInterpreterMachineAdapter.
// Oracle: no panic, termination within ExecTimeout, and an error never comes with a result.

type Variant struct {
	Label  string            `json:"label"`
	Script string            `json:"script"`
	Vars   map[string]string `json:"vars"`
	Store  StoreMode         `json:"store"`
}

func (v Variant) Hash() string {
	h := sha1.New()
	h.Write([]byte(v.Script))
	h.Write([]byte{0})
	for _, k := range sortedKeys(v.Vars) {
		h.Write([]byte(k + "=" + v.Vars[k] + "\x00"))
	}
	h.Write([]byte{byte(v.Store)})
	return hex.EncodeToString(h.Sum(nil))[:16]
}

var tokenRe = regexp.MustCompile(`\n|[\[\]\(\)\{\}=,*]|"[^"\n]*"|[^\s\[\]\(\)\{\}=,*]+`)

// tokenise keeps the separators so that the text can be re-assembled exactly.
func tokenise(s string) (tokens []string, seps []string) {
	idx := tokenRe.FindAllStringIndex(s, -1)
	prev := 0
	for _, ix := range idx {
		seps = append(seps, s[prev:ix[0]])
		tokens = append(tokens, s[ix[0]:ix[1]])
		prev = ix[1]
	}
	seps = append(seps, s[prev:])
	return
}

func assemble(tokens, seps []string, skip int, dup int) string {
	var b strings.Builder
	for i, t := range tokens {
		b.WriteString(seps[i])
		if i == skip {
			continue
		}
		b.WriteString(t)
		if i == dup {
			if t == "\n" {
				b.WriteString(t)
			} else {
				b.WriteString(" " + t)
			}
		}
	}
	b.WriteString(seps[len(tokens)])
	return b.String()
}

var illTyped = map[string][]string{
	"account":  {"COIN 5", "", "@a", "a b", "world", "a:", "1/2", "é"},
	"monetary": {"a", "COIN", "COIN -3", "COIN 5 6", " 5", "a 5", "@a 5", "COIN 1e3", "COIN 99999999999999999999999999", "COIN", "USD/2 x", "COIN  5"},
	"portion":  {"COIN", "3/0", "5/4", "1/", "150%", "-1/2", "0.5", "1/2/3", "", "50%"},
	"asset":    {"a", "1/2", "", "COIN 5", "coin", "@a"},
	"number":   {"abc", "-1", "", "1.5", "COIN 5", "99999999999999999999999999"},
	"string":   {"", "\"", "\n"},
}

func withVar(vars map[string]string, k, v string) map[string]string {
	c := copyVars(vars)
	c[k] = v
	return c
}

// Variants enumerates the C27 inputs derived from one case.
func Variants(c *Case, tokenMutations bool) []Variant {
	var out []Variant
	for _, mode := range []string{"lit", "vars"} {
		rd := Render(c.Prog, mode)
		out = append(out, Variant{Label: "baseline/" + mode, Script: rd.Script, Vars: rd.Vars})
		for _, sm := range []StoreMode{StoreEmpty, StoreError, StoreNoAssets} {
			out = append(out, Variant{Label: fmt.Sprintf("store-%d/%s", sm, mode), Script: rd.Script, Vars: rd.Vars, Store: sm})
		}
		if mode == "vars" {
			names := sortedKeys(rd.Vars)
			for _, name := range names {
				typ := rd.VarTypes[name]
				missing := copyVars(rd.Vars)
				delete(missing, name)
				out = append(out, Variant{Label: "missing-var/" + typ, Script: rd.Script, Vars: missing})
				for i, bad := range illTyped[typ] {
					out = append(out, Variant{Label: fmt.Sprintf("ill-typed/%s/%d", typ, i), Script: rd.Script, Vars: withVar(rd.Vars, name, bad)})
				}
			}
			out = append(out, Variant{Label: "extraneous-var", Script: rd.Script, Vars: withVar(rd.Vars, "zzz", "1")})
			out = append(out, Variant{Label: "nil-vars", Script: rd.Script, Vars: nil})
		}
		for i, v := range printVariants(rd.Script) {
			out = append(out, Variant{Label: fmt.Sprintf("print-%d/%s", i, mode), Script: v, Vars: rd.Vars})
		}
		if tokenMutations {
			tokens, seps := tokenise(rd.Script)
			for i := range tokens {
				out = append(out, Variant{Label: "token-del/" + mode, Script: assemble(tokens, seps, i, -1), Vars: rd.Vars})
				out = append(out, Variant{Label: "token-dup/" + mode, Script: assemble(tokens, seps, -1, i), Vars: rd.Vars})
			}
		}
	}
	return out
}

// printExprs: what a script may `print` (machine grammar: PRINT expression): a number, a monetary,
// an account, an asset, a string, a portion, arithmetic expressions.
var printExprs = []string{"42", "[COIN 5]", "@a", "1 + 2", "[COIN 1] + [COIN 2]", "COIN", "\"x\"", "1/2", "7 - 9"}

// printVariants inserts `print <expr>` statements into a rendered script: before the first
// statement, after the last one, and between statements (so: before and after a send, and in
// scripts whose send then fails). `print` only exists in the machine runtime; production runs it
// through MachineNumscriptRuntimeAdapter, which never installs a printer of its own.
func printVariants(script string) []string {
	head, body := "", script
	if strings.HasPrefix(script, "vars {") {
		if i := strings.Index(script, "}\n"); i >= 0 {
			head, body = script[:i+2], script[i+2:]
		}
	}
	// statement boundaries of the body: lines starting in column 0 with a statement keyword
	lines := strings.SplitAfter(body, "\n")
	var starts []int
	for i, l := range lines {
		if strings.HasPrefix(l, "send ") || strings.HasPrefix(l, "save ") || strings.HasPrefix(l, "set_") {
			starts = append(starts, i)
		}
	}
	insert := func(at int, stmt string) string {
		var b strings.Builder
		b.WriteString(head)
		for i, l := range lines {
			if i == at {
				b.WriteString(stmt + "\n")
			}
			b.WriteString(l)
		}
		if at >= len(lines) {
			b.WriteString(stmt + "\n")
		}
		return b.String()
	}
	var out []string
	n := 0
	pick := func() string { e := printExprs[n%len(printExprs)]; n++; return "print " + e }
	if len(starts) == 0 {
		return nil
	}
	out = append(out, insert(starts[0], pick()))   // before the first statement
	out = append(out, insert(len(lines), pick()))  // after the last statement
	out = append(out, insert(starts[0], pick()))   // another kind of value first
	if len(starts) > 1 {
		out = append(out, insert(starts[1], pick())) // between two statements
	}
	out = append(out, insert(len(lines), pick()+"\n"+pick())) // two prints in a row at the end
	// every expression kind once, ahead of everything
	all := make([]string, len(printExprs))
	for i, e := range printExprs {
		all[i] = "print " + e
	}
	out = append(out, insert(starts[0], strings.Join(all, "\n")))
	return out
}

type RobustOutcome struct {
	Skipped       int // variants not executed because their class kept hanging
	PrintRuns     int
	PrintExecuted int // print variants that compiled, i.e. executed OP_PRINT or failed at run time
	Evaluations   int
	Disagreements []RobustFinding
	// per variant: hash -> reached run time on the machine (compiled)
	Hashes map[string]bool
}

type RobustFinding struct {
	Kind    string  `json:"kind"`
	Detail  string  `json:"detail"`
	Variant Variant `json:"variant"`
}

func checkRobust(r Result) (string, string) {
	switch {
	case r.Panic != "":
		return "robust/panic/" + r.Runtime, firstLines(r.Panic, 24)
	case r.Hang:
		return "robust/hang/" + r.Runtime, fmt.Sprintf("no result within 3 x %s (timeout + grace period); the execution was abandoned", ExecTimeout)
	case r.Partial:
		return "robust/partial-result/" + r.Runtime, fmt.Sprintf("error %q returned together with a result %s", r.Err, PostingsString(r.Posts))
	}
	return "", ""
}

// RunRobust executes the variants of one case. seen de-duplicates inputs across cases (by hash).
// HangBreaker stops executing a class of variants once it has hung a few times: every hang costs
// 3 x ExecTimeout and leaves a goroutine behind, and a defect such as "print blocks forever" hangs
// on every input of its class. The hangs already seen are reported; the check terminates.
type HangBreaker struct {
	mu    sync.Mutex
	hangs map[string]int
	Limit int
}

func NewHangBreaker(limit int) *HangBreaker { return &HangBreaker{hangs: map[string]int{}, Limit: limit} }

func variantClass(label string) string {
	if i := strings.Index(label, "/"); i > 0 {
		label = label[:i]
	}
	if i := strings.Index(label, "-"); i > 0 && strings.HasPrefix(label, "print") {
		label = label[:i]
	}
	return label
}

func (b *HangBreaker) tripped(class string) bool {
	if b == nil {
		return false
	}
	b.mu.Lock()
	defer b.mu.Unlock()
	return b.hangs[class] >= b.Limit
}

func (b *HangBreaker) record(class string) {
	if b == nil {
		return
	}
	b.mu.Lock()
	b.hangs[class]++
	b.mu.Unlock()
}

func (b *HangBreaker) Skipped() map[string]int {
	out := map[string]int{}
	if b == nil {
		return out
	}
	b.mu.Lock()
	defer b.mu.Unlock()
	for k, v := range b.hangs {
		if v >= b.Limit {
			out[k] = v
		}
	}
	return out
}

func RunRobust(c *Case, tokenMutations bool, withInterp bool, seen func(string) bool, breaker *HangBreaker) RobustOutcome {
	out := RobustOutcome{Hashes: map[string]bool{}}
	for _, v := range Variants(c, tokenMutations) {
		class := variantClass(v.Label)
		if breaker.tripped(class) {
			out.Skipped++
			continue
		}
		h := v.Hash()
		if seen != nil && seen(h) {
			continue
		}
		inject := ""
		if c.Inject == "panic" || c.Inject == "hang" {
			inject = c.Inject
		}
		var m Result
		if inject != "" {
			m = RunMachineDirect(v.Script, v.Vars, c.Bal, v.Store, inject)
		} else {
			m = RunMachineAdapter(v.Script, v.Vars, c.Bal, v.Store)
		}
		out.Evaluations++
		out.Hashes[h] = m.Class != "compile"
		if m.Hang {
			breaker.record(class)
		}
		if k, d := checkRobust(m); k != "" {
			out.Disagreements = append(out.Disagreements, RobustFinding{Kind: k, Detail: d, Variant: v})
		}
		if class == "print" {
			out.PrintRuns++
			if m.Class != "compile" {
				out.PrintExecuted++
			}
			continue // `print` is not part of the interpreter's language
		}
		if inject == "partial" {
			out.Disagreements = append(out.Disagreements, RobustFinding{Kind: "robust/partial-result/injected", Detail: "injected", Variant: v})
		}
		if withInterp {
			in := RunInterpreter(v.Script, v.Vars, c.Bal, v.Store)
			out.Evaluations++
			if in.Hang {
				breaker.record(class + "/interpreter")
			}
			if k, d := checkRobust(in); k != "" {
				out.Disagreements = append(out.Disagreements, RobustFinding{Kind: k, Detail: d, Variant: v})
			}
		}
	}
	return out
}

// RobustSignature: kind (which runtime, what went wrong) + class of the input + (for panics) the
// first frame inside the ledger / numscript code.
//
// All "the store did not return the balance a balance() variable asked for" panics share one
// signature (the Monetary resource keeps a nil amount; the first dereference varies).
func RobustSignature(f RobustFinding) string {
	label := f.Variant.Label
	class := label
	if i := strings.Index(label, "/"); i > 0 {
		class = label[:i]
	}
	if strings.HasPrefix(label, "ill-typed/") {
		parts := strings.Split(label, "/")
		class = parts[0] + "/" + parts[1]
	}
	if strings.HasPrefix(label, "print-") {
		class = "print"
	}
	if strings.HasPrefix(label, "store-") {
		class = "missing-balance"
		if strings.Contains(f.Variant.Script, "= balance(") {
			return f.Kind + "/missing-balance/balance-var"
		}
	}
	site := ""
	if strings.Contains(f.Kind, "panic") {
		lines := strings.Split(f.Detail, "\n")
		for i, line := range lines {
			line = strings.TrimSpace(line)
			if i > 0 && strings.HasPrefix(line, "/") && (strings.Contains(line, "/internal/machine/") || strings.Contains(line, "/internal/controller/") || strings.Contains(line, "numscript@")) && !strings.Contains(line, "verif/harness") {
				// previous line: fully qualified function name with arguments
				fn := strings.TrimSpace(lines[i-1])
				if j := strings.LastIndex(fn, "("); j > 0 {
					fn = fn[:j]
				}
				if j := strings.LastIndex(fn, "/"); j >= 0 {
					fn = fn[j+1:]
				}
				site = "@" + fn
				break
			}
		}
	}
	return f.Kind + "/" + class + site
}

func sortedHashKeys(m map[string]bool) []string {
	keys := make([]string, 0, len(m))
	for k := range m {
		keys = append(keys, k)
	}
	sort.Strings(keys)
	return keys
}
