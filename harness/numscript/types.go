// Package numscript binds spec/Numscript.tla to the real Numscript implementations of the ledger:
// it replays the cases TLC printed (abstract program + balances + prescribed outcome) through the
// real compiler + VM (directly and via MachineNumscriptRuntimeAdapter) and through the interpreter
// runtime adapter, and compares.
package numscript

import (
	"encoding/json"
	"fmt"
	"sort"
	"strings"
)

const (
	NoOD   = -1
	Unb    = -2
	AllAmt = -1
	BalAmt = -2
)

type Port struct {
	Num int `json:"num"`
	Den int `json:"den"`
}

type Src struct {
	K     string `json:"k"`
	A     string `json:"a,omitempty"`
	Od    int    `json:"od,omitempty"`
	Cap   int    `json:"cap,omitempty"`
	Src   *Src   `json:"src,omitempty"`
	Srcs  []Src  `json:"srcs,omitempty"`
	Ports []Port `json:"ports,omitempty"`
}

type Dst struct {
	K     string `json:"k"`
	A     string `json:"a,omitempty"`
	Caps  []int  `json:"caps,omitempty"`
	Dests []Dst  `json:"dests,omitempty"`
	Rem   *Dst   `json:"rem,omitempty"`
	Ports []Port `json:"ports,omitempty"`
}

type Val struct {
	T string `json:"t"`
	S string `json:"s"`
	N int    `json:"n"`
	D int    `json:"d"`
}

type Stmt struct {
	K     string `json:"k"`
	Asset string `json:"asset,omitempty"`
	Amt   int    `json:"amt,omitempty"`
	AmtBig string `json:"amtbig,omitempty"` // harness-side: amount beyond the spec's integers (scaled family-A runs)
	Ba    string `json:"ba,omitempty"`
	Src   *Src   `json:"src,omitempty"`
	Dst   *Dst   `json:"dst,omitempty"`
	Key   string `json:"key,omitempty"`
	Val   *Val   `json:"val,omitempty"`
	A     string `json:"a,omitempty"`
}

// Posting as prescribed by the spec (small integers).
type Posting struct {
	S  string `json:"s"`
	D  string `json:"d"`
	As string `json:"as"`
	N  int    `json:"n"`
}

type KV struct {
	K string `json:"k"`
	V string `json:"v"`
}

type AKV struct {
	A string `json:"a"`
	K string `json:"k"`
	V string `json:"v"`
}

type Bounded struct {
	A     string `json:"a"`
	As    string `json:"as"`
	Bound int    `json:"bound"`
}

type Balances map[string]map[string]int

type Expected struct {
	Ok      bool       `json:"ok"`
	Err     string     `json:"err"`
	Posts   []Posting  `json:"posts"`
	Fin     Balances   `json:"fin"`
	Txm     []KV       `json:"txm"`
	Am      []AKV      `json:"am"`
	Tracked [][]string `json:"tracked"`
	Bounded []Bounded  `json:"bounded"`
	Iok     bool       `json:"iok"`
	Iposts  []Posting  `json:"iposts"`
	Kbr     bool       `json:"kbr"`
	Zsplit  bool       `json:"zsplit"`
	Sneg    bool       `json:"sneg"`
}

type ScaleInfo struct {
	Den int       `json:"den"`
	P1  []Posting `json:"p1"`
	P2  []Posting `json:"p2"`
}

type Case struct {
	Fam  string   `json:"fam"`
	I    int      `json:"i,omitempty"`
	Prog []Stmt   `json:"prog"`
	Bal  Balances `json:"bal"`
	Exp  Expected `json:"exp"`
	// family A (C24 through scripts): postings for amounts D+amt (p1) and 2D+amt (p2); the outcome is
	// affine in the multiplier (theorem ThmScriptScale of MC_Numscript.tla)
	Scale *ScaleInfo `json:"scale,omitempty"`
	// harness-side switches (negative controls / replays), never produced by TLC
	Inject string `json:"inject,omitempty"`
}

func (c *Case) TxMetaMap() map[string]string {
	m := map[string]string{}
	for _, kv := range c.Exp.Txm {
		m[kv.K] = kv.V
	}
	return m
}

func (c *Case) AcctMetaMap() map[string]map[string]string {
	m := map[string]map[string]string{}
	for _, e := range c.Exp.Am {
		if m[e.A] == nil {
			m[e.A] = map[string]string{}
		}
		m[e.A][e.K] = e.V
	}
	return m
}

// Observed posting of a real run (amount as decimal string: real code uses big integers).
type RPosting struct {
	S  string `json:"s"`
	D  string `json:"d"`
	As string `json:"as"`
	N  string `json:"n"`
}

func (p RPosting) String() string { return fmt.Sprintf("%s->%s %s %s", p.S, p.D, p.As, p.N) }

func PostingsString(ps []RPosting) string {
	parts := make([]string, len(ps))
	for i, p := range ps {
		parts[i] = p.String()
	}
	return "[" + strings.Join(parts, ", ") + "]"
}

func ExpPostings(ps []Posting, dropZero bool) []RPosting {
	out := make([]RPosting, 0, len(ps))
	for _, p := range ps {
		if dropZero && p.N == 0 {
			continue
		}
		out = append(out, RPosting{S: p.S, D: p.D, As: p.As, N: fmt.Sprint(p.N)})
	}
	return out
}

func NonZero(ps []RPosting) []RPosting {
	out := make([]RPosting, 0, len(ps))
	for _, p := range ps {
		if p.N == "0" {
			continue
		}
		out = append(out, p)
	}
	return out
}

func SamePostings(a, b []RPosting) bool {
	if len(a) != len(b) {
		return false
	}
	for i := range a {
		if a[i] != b[i] {
			return false
		}
	}
	return true
}

func sameMeta(a, b map[string]string) bool {
	if len(a) != len(b) {
		return false
	}
	for k, v := range a {
		if w, ok := b[k]; !ok || w != v {
			return false
		}
	}
	return true
}

func sameAcctMeta(a, b map[string]map[string]string) bool {
	// empty inner maps are equivalent to absence
	norm := func(m map[string]map[string]string) map[string]map[string]string {
		o := map[string]map[string]string{}
		for k, v := range m {
			if len(v) > 0 {
				o[k] = v
			}
		}
		return o
	}
	a, b = norm(a), norm(b)
	if len(a) != len(b) {
		return false
	}
	for k, v := range a {
		if w, ok := b[k]; !ok || !sameMeta(v, w) {
			return false
		}
	}
	return true
}

func metaString(m map[string]string) string {
	keys := make([]string, 0, len(m))
	for k := range m {
		keys = append(keys, k)
	}
	sort.Strings(keys)
	parts := make([]string, len(keys))
	for i, k := range keys {
		parts[i] = fmt.Sprintf("%s=%q", k, m[k])
	}
	return "{" + strings.Join(parts, ",") + "}"
}

func jsonString(v any) string {
	b, _ := json.Marshal(v)
	return string(b)
}
