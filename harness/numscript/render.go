package numscript

import (
	"fmt"
	"math/big"
	"sort"
	"strings"
)

// Rendering modes: "lit" writes every value as a literal, "vars" passes accounts (except @world),
// monetary values, metadata values, assets of `send [A *]` and (where the compiler's static
// allotment rule allows it) portions through a `vars { ... }` block + variables JSON. The
// specification's outcome does not depend on the mode (binding a variable is substitution).
type Rendered struct {
	Script string
	Vars   map[string]string
	// VarTypes: declared type per variable that must be supplied (C27 ill-typed bindings)
	VarTypes map[string]string
}

type renderer struct {
	mode     string
	decls    []string // in declaration order
	declared map[string]bool
	vars     map[string]string
	types    map[string]string
	n        map[string]int
	byValue  map[string]string
}

func (r *renderer) variable(typ, value string) string {
	key := typ + "\x00" + value
	if name, ok := r.byValue[key]; ok {
		return "$" + name
	}
	prefix := map[string]string{"account": "acc", "monetary": "mon", "portion": "por", "asset": "ass", "number": "num", "string": "str"}[typ]
	name := fmt.Sprintf("%s%d", prefix, r.n[typ])
	r.n[typ]++
	r.byValue[key] = name
	r.decls = append(r.decls, fmt.Sprintf("\t%s $%s", typ, name))
	r.vars[name] = value
	r.types[name] = typ
	return "$" + name
}

func (r *renderer) account(a string) string {
	if a == "world" || r.mode != "vars" {
		return "@" + a
	}
	return r.variable("account", a)
}

func (r *renderer) monetary(asset string, n int) string {
	if r.mode != "vars" {
		return fmt.Sprintf("[%s %d]", asset, n)
	}
	return r.variable("monetary", fmt.Sprintf("%s %d", asset, n))
}

func (r *renderer) portions(ps []Port) []string {
	// Variable portions are only used where the static allotment rule of the compiler gives the
	// same verdict as for the constants: exactly one `remaining` and constants summing to < 100 %
	// (with variables the compiler cannot see "already equal to 100%").
	nbRem := 0
	sum := big.NewRat(0, 1)
	okPorts := true
	for _, p := range ps {
		if p.Num == -1 {
			nbRem++
			continue
		}
		if p.Den <= 0 || p.Num < 0 || p.Num > p.Den {
			okPorts = false
			continue
		}
		sum.Add(sum, big.NewRat(int64(p.Num), int64(p.Den)))
	}
	hasRem := okPorts && nbRem == 1 && sum.Cmp(big.NewRat(1, 1)) < 0
	out := make([]string, len(ps))
	for i, p := range ps {
		switch {
		case p.Num == -1:
			out[i] = "remaining"
		case r.mode == "vars" && hasRem:
			// with `remaining` and no constant portion the compiler accepts variable portions
			out[i] = r.variable("portion", fmt.Sprintf("%d/%d", p.Num, p.Den))
		default:
			out[i] = fmt.Sprintf("%d/%d", p.Num, p.Den)
		}
	}
	return out
}

func ind(n int) string { return strings.Repeat("\t", n) }

func (r *renderer) source(s *Src, asset string, depth int) string {
	switch s.K {
	case "acct":
		out := r.account(s.A)
		switch {
		case s.Od == Unb:
			out += " allowing unbounded overdraft"
		case s.Od >= 0:
			out += " allowing overdraft up to " + r.monetary(asset, s.Od)
		}
		return out
	case "max":
		return "max " + r.monetary(asset, s.Cap) + " from " + r.source(s.Src, asset, depth)
	case "seq":
		var b strings.Builder
		b.WriteString("{\n")
		for i := range s.Srcs {
			b.WriteString(ind(depth+1) + r.source(&s.Srcs[i], asset, depth+1) + "\n")
		}
		b.WriteString(ind(depth) + "}")
		return b.String()
	case "allot":
		ps := r.portions(s.Ports)
		var b strings.Builder
		b.WriteString("{\n")
		for i := range s.Srcs {
			b.WriteString(ind(depth+1) + ps[i] + " from " + r.source(&s.Srcs[i], asset, depth+1) + "\n")
		}
		b.WriteString(ind(depth) + "}")
		return b.String()
	}
	return "?"
}

func (r *renderer) keptOrDest(d *Dst, asset string, depth int) string {
	if d.K == "kept" {
		return "kept"
	}
	return "to " + r.dest(d, asset, depth)
}

func (r *renderer) dest(d *Dst, asset string, depth int) string {
	switch d.K {
	case "acct":
		return r.account(d.A)
	case "seq":
		var b strings.Builder
		b.WriteString("{\n")
		for i := range d.Dests {
			b.WriteString(ind(depth+1) + "max " + r.monetary(asset, d.Caps[i]) + " " + r.keptOrDest(&d.Dests[i], asset, depth+1) + "\n")
		}
		b.WriteString(ind(depth+1) + "remaining " + r.keptOrDest(d.Rem, asset, depth+1) + "\n")
		b.WriteString(ind(depth) + "}")
		return b.String()
	case "allot":
		ps := r.portions(d.Ports)
		var b strings.Builder
		b.WriteString("{\n")
		for i := range d.Dests {
			b.WriteString(ind(depth+1) + ps[i] + " " + r.keptOrDest(&d.Dests[i], asset, depth+1) + "\n")
		}
		b.WriteString(ind(depth) + "}")
		return b.String()
	}
	return "?"
}

func (r *renderer) value(v *Val) string {
	switch v.T {
	case "string":
		if r.mode == "vars" {
			return r.variable("string", v.S)
		}
		return fmt.Sprintf("%q", v.S)
	case "number":
		if r.mode == "vars" {
			return r.variable("number", fmt.Sprint(v.N))
		}
		return fmt.Sprint(v.N)
	case "account":
		if r.mode == "vars" {
			return r.variable("account", v.S)
		}
		return "@" + v.S
	case "asset":
		if r.mode == "vars" {
			return r.variable("asset", v.S)
		}
		return v.S
	case "monetary":
		return r.monetary(v.S, v.N)
	case "portion":
		if r.mode == "vars" {
			return r.variable("portion", fmt.Sprintf("%d/%d", v.N, v.D))
		}
		return fmt.Sprintf("%d/%d", v.N, v.D)
	}
	return "?"
}

// Render produces Numscript text accepted by both grammars (machine: newline-sensitive).
func Render(prog []Stmt, mode string) Rendered {
	r := &renderer{mode: mode, declared: map[string]bool{}, vars: map[string]string{}, types: map[string]string{},
		n: map[string]int{}, byValue: map[string]string{}}
	var body strings.Builder
	var balDecls []string
	for i := range prog {
		s := &prog[i]
		switch s.K {
		case "send":
			var amount string
			switch s.Amt {
			case AllAmt:
				if mode == "vars" {
					amount = "[" + r.variable("asset", s.Asset) + " *]"
				} else {
					amount = "[" + s.Asset + " *]"
				}
			case BalAmt:
				name := fmt.Sprintf("bal%d", len(balDecls))
				balDecls = append(balDecls, fmt.Sprintf("\tmonetary $%s = balance(@%s, %s)", name, s.Ba, s.Asset))
				amount = "$" + name
			default:
				amount = r.monetary(s.Asset, s.Amt)
				if s.AmtBig != "" {
					if mode == "vars" {
						amount = r.variable("monetary", s.Asset+" "+s.AmtBig)
					} else {
						amount = "[" + s.Asset + " " + s.AmtBig + "]"
					}
				}
			}
			body.WriteString("send " + amount + " (\n")
			body.WriteString("\tsource = " + r.source(s.Src, s.Asset, 1) + "\n")
			body.WriteString("\tdestination = " + r.dest(s.Dst, s.Asset, 1) + "\n")
			body.WriteString(")\n")
		case "save":
			var amount string
			if s.Amt == AllAmt {
				if mode == "vars" {
					amount = "[" + r.variable("asset", s.Asset) + " *]"
				} else {
					amount = "[" + s.Asset + " *]"
				}
			} else {
				amount = r.monetary(s.Asset, s.Amt)
			}
			body.WriteString("save " + amount + " from " + r.account(s.A) + "\n")
		case "txmeta":
			body.WriteString(fmt.Sprintf("set_tx_meta(%q, %s)\n", s.Key, r.value(s.Val)))
		case "acctmeta":
			body.WriteString(fmt.Sprintf("set_account_meta(%s, %q, %s)\n", r.account(s.A), s.Key, r.value(s.Val)))
		}
	}
	var out strings.Builder
	if len(r.decls)+len(balDecls) > 0 {
		out.WriteString("vars {\n")
		for _, d := range r.decls {
			out.WriteString(d + "\n")
		}
		for _, d := range balDecls {
			out.WriteString(d + "\n")
		}
		out.WriteString("}\n")
	}
	out.WriteString(body.String())
	return Rendered{Script: out.String(), Vars: r.vars, VarTypes: r.types}
}

func sortedKeys(m map[string]string) []string {
	keys := make([]string, 0, len(m))
	for k := range m {
		keys = append(keys, k)
	}
	sort.Strings(keys)
	return keys
}
