package numscript

import (
	"fmt"
	"math/big"

	"github.com/formancehq/ledger/internal/machine"
)

// AllotCase: one (portions, amount) enumerated by MC_NumscriptAllot with the parts the
// specification's Allocate prescribes, plus the data of the scaling lemma
//   Allocate(ps, M*D + amt) = M*nums + Allocate(ps, amt)
// (D: common denominator, nums: numerators over D) which the harness instantiates with huge M.
type AllotCase struct {
	Ports []Port `json:"ports"`
	Amt   int    `json:"amt"`
	Parts []int  `json:"parts"`
	D     int    `json:"den"`
	Nums  []int  `json:"nums"`
	Valid bool   `json:"valid"`
	// negative control
	Inject string `json:"inject,omitempty"`
}

type AllotResult struct {
	Idx           int            `json:"idx"`
	Evaluations   int            `json:"evaluations"`
	Disagreements []Disagreement `json:"disagreements,omitempty"`
}

var scaleFactors = func() []*big.Int {
	mk := func(s string) *big.Int { n, _ := new(big.Int).SetString(s, 10); return n }
	return []*big.Int{
		mk("1"),
		mk("9007199254740993"),                 // 2^53+1
		mk("18446744073709551617"),             // 2^64+1
		mk("1000000000000000000000000000000"), // 10^30
	}
}()

// Targets inside the machine-word window: amounts below 2^64 whose product with a small numerator
// is not (10^18, 2^62+1, 2^63-25, 2^64-1). The multiplier is chosen per case so that
// m*D + amt is the largest such amount <= target.
var windowTargets = func() []*big.Int {
	mk := func(s string) *big.Int { n, _ := new(big.Int).SetString(s, 10); return n }
	return []*big.Int{
		mk("1000000000000000000"),  // 10^18
		mk("4611686018427387905"),  // 2^62+1
		mk("9223372036854775783"),  // 2^63-25
		mk("18446744073709551615"), // 2^64-1
	}
}()

type Multiplier struct {
	M     *big.Int
	Label string // unit | scaled | window
}

// Multipliers of the scaling lemma Allocate(ps, m*D + r) = m*nums + Allocate(ps, r) used on real code.
func Multipliers(D, amt int) []Multiplier {
	var out []Multiplier
	for _, M := range scaleFactors {
		l := "scaled"
		if M.Cmp(big.NewInt(1)) == 0 {
			l = "unit"
		}
		out = append(out, Multiplier{M: new(big.Int).Sub(M, big.NewInt(1)), Label: l})
	}
	for _, T := range windowTargets {
		m := new(big.Int).Sub(T, big.NewInt(int64(amt)))
		m.Div(m, big.NewInt(int64(D)))
		out = append(out, Multiplier{M: m, Label: "window"})
	}
	return out
}

func realAllocate(ps []Port, amount *big.Int) (parts []*big.Int, err error, panicMsg string) {
	defer func() {
		if p := recover(); p != nil {
			panicMsg = fmt.Sprint(p)
		}
	}()
	portions := make([]machine.Portion, len(ps))
	for i, p := range ps {
		if p.Num == -1 {
			portions[i] = machine.NewPortionRemaining()
			continue
		}
		sp, e := machine.NewPortionSpecific(*big.NewRat(int64(p.Num), int64(p.Den)))
		if e != nil {
			return nil, e, ""
		}
		portions[i] = *sp
	}
	al, e := machine.NewAllotment(portions)
	if e != nil {
		return nil, e, ""
	}
	res := al.Allocate(machine.NewMonetaryIntFromBigInt(new(big.Int).Set(amount)))
	parts = make([]*big.Int, len(res))
	for i, r := range res {
		parts[i] = new(big.Int).Set(r.ToBigInt())
	}
	return parts, nil, ""
}

func EvalAllot(idx int, c *AllotCase) AllotResult {
	res := AllotResult{Idx: idx}
	add := func(kind, f string, a ...any) {
		res.Disagreements = append(res.Disagreements, Disagreement{Kind: kind, Detail: fmt.Sprintf(f, a...)})
	}
	for _, sc := range Multipliers(c.D, c.Amt) {
		// amount = m*D + amt ; expected parts = m*nums + parts   (m = 0: the enumerated case itself)
		m1 := sc.M
		amount := new(big.Int).Add(new(big.Int).Mul(m1, big.NewInt(int64(c.D))), big.NewInt(int64(c.Amt)))
		got, err, pm := realAllocate(c.Ports, amount)
		res.Evaluations++
		if pm != "" {
			add("alloc/panic", "portions %v amount %s: panic %s", c.Ports, amount, pm)
			continue
		}
		if err != nil {
			add("alloc/error", "portions %v: NewAllotment/NewPortionSpecific rejects a valid allotment: %v", c.Ports, err)
			break
		}
		if len(got) != len(c.Parts) {
			add("alloc/length", "portions %v amount %s: %d parts, spec %d", c.Ports, amount, len(got), len(c.Parts))
			continue
		}
		sum := new(big.Int)
		for i := range got {
			want := new(big.Int).Add(new(big.Int).Mul(m1, big.NewInt(int64(c.Nums[i]))), big.NewInt(int64(c.Parts[i])))
			if c.Inject == "part" && i == 0 {
				want.Add(want, big.NewInt(1))
			}
			if got[i].Cmp(want) != 0 {
				add("alloc/part/"+sc.Label, "portions %v amount %s: part %d is %s, spec prescribes %s (all real parts %v)", c.Ports, amount, i+1, got[i], want, got)
			}
			sum.Add(sum, got[i])
		}
		if sum.Cmp(amount) != 0 {
			add("alloc/sum", "portions %v amount %s: real parts %v sum to %s", c.Ports, amount, got, sum)
		}
	}
	return res
}
