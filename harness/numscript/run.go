package numscript

import (
	"context"
	"errors"
	"fmt"
	"math/big"
	"os"
	"runtime/debug"
	"sort"
	"strconv"
	"strings"
	"time"

	"github.com/formancehq/go-libs/v5/pkg/types/metadata"

	ledger "github.com/formancehq/ledger/internal"
	ledgercontroller "github.com/formancehq/ledger/internal/controller/ledger"
	"github.com/formancehq/ledger/internal/machine"
	"github.com/formancehq/ledger/internal/machine/script/compiler"
	"github.com/formancehq/ledger/internal/machine/vm"
	"github.com/formancehq/ledger/internal/storage/common"
	ledgerstore "github.com/formancehq/ledger/internal/storage/ledger"
)

// ---------------------------------------------------------------------------------------------
// store stubs

// StoreMode: how the balance store answers (C27 "missing balances" variants)
type StoreMode int

const (
	StoreNormal     StoreMode = iota
	StoreEmpty                // answers with an empty map
	StoreError                // answers with an error
	StoreNoAssets             // answers with the accounts but no assets
	StoreNilBalances          // answers with nil amounts
)

type accountsStub struct {
	common.PaginatedResource[ledger.Account, any]
}

func (accountsStub) GetOne(_ context.Context, q common.ResourceQuery[any]) (*ledger.Account, error) {
	return &ledger.Account{Metadata: metadata.Metadata{}}, nil
}

// ctrlStore implements the part of the controller Store the Numscript adapters use.
type ctrlStore struct {
	ledgercontroller.Store // nil: any other method panics (and would be reported)
	bal                    Balances
	mode                   StoreMode
}

func (s *ctrlStore) GetBalances(_ context.Context, q ledgerstore.BalanceQuery) (ledger.Balances, error) {
	return answerBalances(s.bal, s.mode, q)
}

func (s *ctrlStore) Accounts() common.PaginatedResource[ledger.Account, any] { return accountsStub{} }

func answerBalances(bal Balances, mode StoreMode, q map[string][]string) (map[string]map[string]*big.Int, error) {
	switch mode {
	case StoreEmpty:
		return map[string]map[string]*big.Int{}, nil
	case StoreError:
		return nil, errors.New("store unavailable")
	}
	out := map[string]map[string]*big.Int{}
	for acc, assets := range q {
		out[acc] = map[string]*big.Int{}
		if mode == StoreNoAssets {
			continue
		}
		for _, as := range assets {
			if mode == StoreNilBalances {
				out[acc][as] = nil
				continue
			}
			out[acc][as] = big.NewInt(int64(bal[acc][as]))
		}
	}
	return out, nil
}

// vmStore implements vm.Store directly (for driving vm.Machine and reading Machine.Balances).
type vmStore struct {
	bal  Balances
	mode StoreMode
}

func (s *vmStore) GetBalances(_ context.Context, q vm.BalanceQuery) (vm.Balances, error) {
	return answerBalances(s.bal, s.mode, q)
}

func (s *vmStore) GetAccount(_ context.Context, address string) (*ledger.Account, error) {
	return &ledger.Account{Address: address, Metadata: metadata.Metadata{}}, nil
}

// ---------------------------------------------------------------------------------------------
// results

type Result struct {
	Runtime  string                       `json:"runtime"`
	Ok       bool                         `json:"ok"`
	Class    string                       `json:"class,omitempty"` // error class
	Err      string                       `json:"err,omitempty"`
	Posts    []RPosting                   `json:"posts,omitempty"`
	TxMeta   map[string]string            `json:"txmeta,omitempty"`
	AcctMeta map[string]map[string]string `json:"acctmeta,omitempty"`
	Balances map[string]map[string]string `json:"balances,omitempty"` // Machine.Balances (direct run only)
	Panic    string                       `json:"panic,omitempty"`
	Hang     bool                         `json:"hang,omitempty"`
	Partial  bool                         `json:"partial,omitempty"` // error together with a non-nil result
}

func classifyMachineErr(err error) string {
	switch {
	case errors.Is(err, &machine.ErrInsufficientFund{}):
		return "insufficient"
	case errors.Is(err, &machine.ErrNegativeAmount{}):
		return "negbalance"
	case errors.Is(err, &machine.ErrInvalidVars{}):
		return "invalidvars"
	case errors.Is(err, &machine.ErrMissingMetadata{}):
		return "missingmeta"
	case errors.Is(err, &machine.ErrInvalidScript{}):
		return "invalidscript"
	case errors.Is(err, ledgercontroller.ErrCompilationFailed{}):
		return "compile"
	}
	return "other"
}

func classifyInterpErr(err error) string {
	var rt ledgercontroller.ErrRuntime
	if errors.As(err, &rt) && rt.InterpreterError != nil {
		t := fmt.Sprintf("%T", rt.InterpreterError)
		switch {
		case strings.HasSuffix(t, "MissingFundsErr"):
			return "insufficient"
		case strings.HasSuffix(t, "NegativeBalanceError"):
			return "negbalance"
		}
		return "runtime:" + strings.TrimPrefix(t, "interpreter.")
	}
	if errors.Is(err, ledgercontroller.ErrParsing{}) {
		return "compile"
	}
	return "other"
}

func convPostings(ps ledger.Postings) []RPosting {
	out := make([]RPosting, len(ps))
	for i, p := range ps {
		n := "nil"
		if p.Amount != nil {
			n = p.Amount.String()
		}
		out[i] = RPosting{S: p.Source, D: p.Destination, As: p.Asset, N: n}
	}
	return out
}

func convAcctMeta(m map[string]metadata.Metadata) map[string]map[string]string {
	out := map[string]map[string]string{}
	for a, mm := range m {
		out[a] = map[string]string{}
		for k, v := range mm {
			out[a][k] = v
		}
	}
	return out
}

func copyVars(v map[string]string) map[string]string {
	c := make(map[string]string, len(v))
	for k, x := range v {
		c[k] = x
	}
	return c
}

// Timeout of one protected execution. Numscript programs of the bounded grammar finish in
// microseconds; anything slower than this is reported as a hang.
var ExecTimeout = func() time.Duration {
	if v := os.Getenv("VH_EXEC_TIMEOUT_MS"); v != "" {
		if n, err := strconv.Atoi(v); err == nil && n > 0 {
			return time.Duration(n) * time.Millisecond
		}
	}
	return 10 * time.Second
}()

// protect runs f with panic recovery and a timeout.
func protect(runtimeName string, f func(r *Result)) Result {
	done := make(chan Result, 1)
	go func() {
		r := Result{Runtime: runtimeName}
		defer func() {
			if p := recover(); p != nil {
				r.Ok = false
				r.Panic = fmt.Sprintf("%v\n%s", p, firstLines(string(debug.Stack()), 24))
				r.Class = "panic"
			}
			done <- r
		}()
		f(&r)
	}()
	timer := time.NewTimer(ExecTimeout)
	defer timer.Stop()
	select {
	case r := <-done:
		return r
	case <-timer.C:
	}
	// grace period (a loaded machine can starve a goroutine): only an execution that is still not
	// back after 3 x the timeout in total is reported as a hang
	grace := time.NewTimer(2 * ExecTimeout)
	defer grace.Stop()
	select {
	case r := <-done:
		return r
	case <-grace.C:
		return Result{Runtime: runtimeName, Hang: true, Class: "hang"}
	}
}

func firstLines(s string, n int) string {
	lines := strings.Split(s, "\n")
	if len(lines) > n {
		lines = lines[:n]
	}
	return strings.Join(lines, "\n")
}

// RunMachineDirect drives compiler + vm.Machine step by step (what MachineNumscriptRuntimeAdapter
// does) and additionally observes Machine.Balances.
func RunMachineDirect(script string, vars map[string]string, bal Balances, mode StoreMode, inject string) Result {
	return protect("machine", func(r *Result) {
		if inject == "panic" {
			panic("injected panic (negative control)")
		}
		if inject == "hang" {
			time.Sleep(3*ExecTimeout + 2*time.Second)
		}
		prog, err := compiler.Compile(script)
		if err != nil {
			r.Class, r.Err = "compile", err.Error()
			return
		}
		m := vm.NewMachine(*prog)
		store := &vmStore{bal: bal, mode: mode}
		ctx := context.Background()
		if err := m.SetVarsFromJSON(copyVars(vars)); err != nil {
			r.Class, r.Err = classifyMachineErr(err), err.Error()
			return
		}
		if err := m.ResolveResources(ctx, store); err != nil {
			r.Class, r.Err = classifyMachineErr(err), err.Error()
			return
		}
		if err := m.ResolveBalances(ctx, store); err != nil {
			r.Class, r.Err = classifyMachineErr(err), err.Error()
			return
		}
		if err := m.Execute(); err != nil {
			r.Class, r.Err = classifyMachineErr(err), err.Error()
			return
		}
		r.Ok = true
		r.Posts = make([]RPosting, len(m.Postings))
		for i, p := range m.Postings {
			r.Posts[i] = RPosting{S: p.Source, D: p.Destination, As: p.Asset, N: p.Amount.String()}
		}
		r.TxMeta = map[string]string{}
		for k, v := range m.GetTxMetaJSON() {
			r.TxMeta[k] = v
		}
		r.AcctMeta = convAcctMeta(m.GetAccountsMetaJSON())
		r.Balances = map[string]map[string]string{}
		for a, mm := range m.Balances {
			r.Balances[string(a)] = map[string]string{}
			for as, v := range mm {
				r.Balances[string(a)][string(as)] = v.String()
			}
		}
	})
}

func fillFromExec(r *Result, res *ledgercontroller.NumscriptExecutionResult, err error, classify func(error) string) {
	if err != nil {
		r.Class, r.Err = classify(err), err.Error()
		if res != nil {
			r.Partial = true
			r.Posts = convPostings(res.Postings)
		}
		return
	}
	if res == nil {
		r.Class, r.Err = "other", "nil result without error"
		return
	}
	r.Ok = true
	r.Posts = convPostings(res.Postings)
	r.TxMeta = map[string]string{}
	for k, v := range res.Metadata {
		r.TxMeta[k] = v
	}
	r.AcctMeta = convAcctMeta(res.AccountMetadata)
}

// RunMachineAdapter: DefaultNumscriptParser + MachineNumscriptRuntimeAdapter (what the ledger uses).
func RunMachineAdapter(script string, vars map[string]string, bal Balances, mode StoreMode) Result {
	return protect("machine-adapter", func(r *Result) {
		rt, err := ledgercontroller.NewDefaultNumscriptParser().Parse(script)
		if err != nil {
			r.Class, r.Err = "compile", err.Error()
			if rt != nil {
				r.Partial = true
			}
			return
		}
		res, err := rt.Execute(context.Background(), &ctrlStore{bal: bal, mode: mode}, copyVars(vars))
		fillFromExec(r, res, err, classifyMachineErr)
	})
}

// RunInterpreter: InterpreterNumscriptParser + DefaultInterpreterMachineAdapter.
func RunInterpreter(script string, vars map[string]string, bal Balances, mode StoreMode) Result {
	return protect("interpreter", func(r *Result) {
		rt, err := ledgercontroller.NewInterpreterNumscriptParser(nil).Parse(script)
		if err != nil {
			r.Class, r.Err = "compile", firstLines(err.Error(), 6)
			return
		}
		res, err := rt.Execute(context.Background(), &ctrlStore{bal: bal, mode: mode}, copyVars(vars))
		fillFromExec(r, res, err, classifyInterpErr)
	})
}

func sortedAccounts(b Balances) []string {
	keys := make([]string, 0, len(b))
	for k := range b {
		keys = append(keys, k)
	}
	sort.Strings(keys)
	return keys
}
