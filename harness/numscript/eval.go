package numscript

import (
	"fmt"
	"math/big"
	"strings"
)

// Disagreement: one way in which a real run differs from what the specification prescribes (or
// one real runtime from the other). Kind prefixes decide the property the checks attribute it to:
//
//	machine-vs-spec/*    -> C22   (postings / amounts / error class / metadata / balances)
//	machine/overdrawn    -> C23   (a bounded source ends below min(initial, -bound) in the real postings)
//	interp-vs-machine/*  -> C26   (the two runtimes disagree, zero-amount postings ignored)
//	interp-vs-spec/*     -> C26
//	robust/*             -> C27   (panic, hang, result returned together with an error)
type Disagreement struct {
	Kind   string `json:"kind"`
	Mode   string `json:"mode,omitempty"`
	Detail string `json:"detail"`
}

type CaseResult struct {
	Idx           int            `json:"idx"`
	Fam           string         `json:"fam"`
	NonTrivial    bool           `json:"nontrivial"`
	CommonSubset  bool           `json:"common_subset"`
	Disagreements []Disagreement `json:"disagreements,omitempty"`
	Script        string         `json:"script,omitempty"`
	Vars          map[string]string `json:"vars,omitempty"`
	Machine       *Result        `json:"machine,omitempty"`
	Interp        *Result        `json:"interp,omitempty"`
	Executions    int            `json:"executions"`
}

type Options struct {
	Modes       []string // rendering modes
	WithInterp  bool
	WithAdapter bool
	Verbose     bool // keep script/results in every CaseResult
}

func knownClass(c string) bool {
	return c == "compile" || c == "insufficient" || c == "negbalance"
}

func compareMachineToSpec(c *Case, r Result, mode string) []Disagreement {
	var ds []Disagreement
	add := func(kind, f string, a ...any) {
		ds = append(ds, Disagreement{Kind: kind, Mode: mode, Detail: fmt.Sprintf(f, a...)})
	}
	if r.Panic != "" {
		add("robust/panic/"+r.Runtime, "%s", firstLines(r.Panic, 6))
		return ds
	}
	if r.Hang {
		add("robust/hang/"+r.Runtime, "no result within %s", ExecTimeout)
		return ds
	}
	if r.Partial {
		add("robust/partial-result/"+r.Runtime, "error %q returned together with a result %s", r.Err, PostingsString(r.Posts))
	}
	exp := &c.Exp
	if exp.Ok != r.Ok {
		if exp.Ok {
			add("machine-vs-spec/unexpected-error/"+r.Class, "spec: success with postings %s; %s: error %q", PostingsString(ExpPostings(exp.Posts, false)), r.Runtime, r.Err)
		} else {
			add("machine-vs-spec/missing-error/"+exp.Err, "spec: error class %q; %s: success with postings %s", exp.Err, r.Runtime, PostingsString(r.Posts))
		}
		return ds
	}
	if !exp.Ok {
		if r.Class != exp.Err {
			add("machine-vs-spec/error-class", "spec: %q; %s: %q (%s)", exp.Err, r.Runtime, r.Class, r.Err)
		}
		return ds
	}
	want := ExpPostings(exp.Posts, false)
	if !SamePostings(want, r.Posts) {
		add("machine-vs-spec/postings", "spec: %s; %s: %s", PostingsString(want), r.Runtime, PostingsString(r.Posts))
	}
	if !sameMeta(c.TxMetaMap(), r.TxMeta) {
		add("machine-vs-spec/txmeta", "spec: %s; %s: %s", metaString(c.TxMetaMap()), r.Runtime, metaString(r.TxMeta))
	}
	if !sameAcctMeta(c.AcctMetaMap(), r.AcctMeta) {
		add("machine-vs-spec/acctmeta", "spec: %s; %s: %s", jsonString(c.AcctMetaMap()), r.Runtime, jsonString(r.AcctMeta))
	}
	if r.Balances != nil {
		for _, p := range exp.Tracked {
			a, as := p[0], p[1]
			got, ok := r.Balances[a][as]
			if !ok {
				add("machine-vs-spec/balances", "tracked balance %s/%s missing from Machine.Balances", a, as)
				continue
			}
			if got != fmt.Sprint(exp.Fin[a][as]) {
				add("machine-vs-spec/balances", "final tracked balance %s/%s: spec %d, machine %s", a, as, exp.Fin[a][as], got)
			}
		}
	}
	return ds
}

// overdrawn evaluates the C23 predicate on the postings of a real run: every bounded source
// (never declared unbounded) ends at >= min(initial, -bound), where final = initial + postings.
func overdrawn(c *Case, r Result, mode string) []Disagreement {
	var ds []Disagreement
	if !r.Ok {
		return nil
	}
	for _, b := range c.Exp.Bounded {
		init := big.NewInt(int64(c.Bal[b.A][b.As]))
		fin := new(big.Int).Set(init)
		for _, p := range r.Posts {
			if p.As != b.As {
				continue
			}
			n, ok := new(big.Int).SetString(p.N, 10)
			if !ok {
				continue
			}
			if p.S == b.A {
				fin.Sub(fin, n)
			}
			if p.D == b.A {
				fin.Add(fin, n)
			}
		}
		floor := big.NewInt(int64(-b.Bound))
		if init.Cmp(floor) < 0 {
			floor = init
		}
		if fin.Cmp(floor) < 0 {
			ds = append(ds, Disagreement{Kind: "machine/overdrawn", Mode: mode,
				Detail: fmt.Sprintf("bounded source %s/%s (bound %d): initial %s, final %s < min(initial, -bound) = %s; %s postings %s",
					b.A, b.As, b.Bound, init, fin, floor, r.Runtime, PostingsString(r.Posts))})
		}
	}
	return ds
}

func compareInterp(c *Case, m Result, in Result, mode string) []Disagreement {
	var ds []Disagreement
	add := func(kind, f string, a ...any) {
		ds = append(ds, Disagreement{Kind: kind, Mode: mode, Detail: fmt.Sprintf(f, a...)})
	}
	if in.Panic != "" {
		add("robust/panic/interpreter", "%s", firstLines(in.Panic, 6))
		return ds
	}
	if in.Hang {
		add("robust/hang/interpreter", "no result within %s", ExecTimeout)
		return ds
	}
	if in.Partial {
		add("robust/partial-result/interpreter", "error %q returned together with a result", in.Err)
	}
	// the two real runtimes against each other (zero-amount postings ignored)
	switch {
	case m.Ok != in.Ok:
		if m.Ok {
			add("interp-vs-machine/only-interpreter-fails", "machine: %s; interpreter: error %q (%s)", PostingsString(NonZero(m.Posts)), in.Class, firstLines(in.Err, 2))
		} else {
			add("interp-vs-machine/only-machine-fails", "machine: error %q (%s); interpreter: %s", m.Class, m.Err, PostingsString(in.Posts))
		}
	case m.Ok:
		if !SamePostings(NonZero(m.Posts), NonZero(in.Posts)) {
			add("interp-vs-machine/postings", "machine: %s; interpreter: %s", PostingsString(NonZero(m.Posts)), PostingsString(NonZero(in.Posts)))
		}
		if !sameMeta(m.TxMeta, in.TxMeta) {
			add("interp-vs-machine/txmeta", "machine: %s; interpreter: %s", metaString(m.TxMeta), metaString(in.TxMeta))
		}
		if !sameAcctMeta(m.AcctMeta, in.AcctMeta) {
			add("interp-vs-machine/acctmeta", "machine: %s; interpreter: %s", jsonString(m.AcctMeta), jsonString(in.AcctMeta))
		}
	}
	// the interpreter against the specified outcome (modulo zero-amount postings); only reported when
	// the two real runtimes agree with each other (otherwise it repeats the disagreement above)
	if len(ds) > 0 {
		return ds
	}
	exp := &c.Exp
	switch {
	case exp.Ok != in.Ok:
		add("interp-vs-spec/success", "spec ok=%v (%s); interpreter ok=%v (%s %s)", exp.Ok, exp.Err, in.Ok, in.Class, firstLines(in.Err, 2))
	case exp.Ok:
		if !SamePostings(ExpPostings(exp.Posts, true), NonZero(in.Posts)) {
			add("interp-vs-spec/postings", "spec: %s; interpreter: %s", PostingsString(ExpPostings(exp.Posts, true)), PostingsString(NonZero(in.Posts)))
		}
		if !sameMeta(c.TxMetaMap(), in.TxMeta) {
			add("interp-vs-spec/txmeta", "spec: %s; interpreter: %s", metaString(c.TxMetaMap()), metaString(in.TxMeta))
		}
		if !sameAcctMeta(c.AcctMetaMap(), in.AcctMeta) {
			add("interp-vs-spec/acctmeta", "spec: %s; interpreter: %s", jsonString(c.AcctMetaMap()), jsonString(in.AcctMeta))
		}
	}
	return ds
}

// EvalCase replays one TLC case through the real runtimes in every rendering mode.
func EvalCase(idx int, c *Case, opt Options) CaseResult {
	cr := CaseResult{Idx: idx, Fam: c.Fam}
	cr.NonTrivial = !c.Exp.Ok || len(c.Exp.Posts) > 0
	cr.CommonSubset = true
	for mi, mode := range opt.Modes {
		rd := Render(c.Prog, mode)
		m := RunMachineDirect(rd.Script, rd.Vars, c.Bal, StoreNormal, c.Inject)
		cr.Executions++
		ds := compareMachineToSpec(c, m, mode)
		ds = append(ds, overdrawn(c, m, mode)...)
		mref := m // what the interpreter is compared with: the adapter's NumscriptExecutionResult when available
		if opt.WithAdapter {
			ma := RunMachineAdapter(rd.Script, rd.Vars, c.Bal, StoreNormal)
			if ma.Panic == "" && !ma.Hang {
				mref = ma
			}
			cr.Executions++
			// the adapter must report exactly what the machine did
			if ma.Panic != "" || ma.Hang || ma.Partial {
				ds = append(ds, compareMachineToSpec(c, ma, mode)...)
			} else if ma.Ok != m.Ok || !SamePostings(ma.Posts, m.Posts) || !sameMeta(ma.TxMeta, m.TxMeta) || !sameAcctMeta(ma.AcctMeta, m.AcctMeta) {
				ds = append(ds, Disagreement{Kind: "machine-vs-spec/adapter", Mode: mode,
					Detail: fmt.Sprintf("MachineNumscriptRuntimeAdapter ok=%v %s %q differs from vm.Machine ok=%v %s %q", ma.Ok, PostingsString(ma.Posts), ma.Err, m.Ok, PostingsString(m.Posts), m.Err)})
			}
		}
		var in Result
		if opt.WithInterp {
			in = RunInterpreter(rd.Script, rd.Vars, c.Bal, StoreNormal)
			cr.Executions++
			if c.Inject == "interp-amount" && in.Ok && len(in.Posts) > 0 {
				n, _ := new(big.Int).SetString(in.Posts[0].N, 10)
				in.Posts[0].N = n.Add(n, big.NewInt(1)).String()
			}
			if mref.Class == "compile" || in.Class == "compile" {
				// not in the language subset both runtimes accept
				cr.CommonSubset = false
				if mref.Class != "compile" && in.Class == "compile" {
					// the renderer only emits the shared syntax: the interpreter's parser rejecting it is reported
					ds = append(ds, Disagreement{Kind: "interp-vs-machine/parse", Mode: mode, Detail: "interpreter parser rejects a script the machine compiles: " + firstLines(in.Err, 3)})
				}
			} else {
				ds = append(ds, compareInterp(c, mref, in, mode)...)
			}
		}
		if mi == 0 && c.Scale != nil {
			sds, n := scaledRuns(c, opt)
			ds = append(ds, sds...)
			cr.Executions += n
		}
		cr.Disagreements = append(cr.Disagreements, ds...)
		if mi == 0 || len(ds) > 0 {
			if opt.Verbose || len(ds) > 0 {
				cr.Script, cr.Vars = rd.Script, rd.Vars
				mm, ii := m, in
				cr.Machine = &mm
				if opt.WithInterp {
					cr.Interp = &ii
				}
			}
		}
	}
	return cr
}

// scaledRuns replays a family-A case with amounts m*D + amt far beyond the spec's integers (inside
// the 64-bit machine word and above it): expected postings p1 + (m-1)*(p2-p1).
func scaledRuns(c *Case, opt Options) ([]Disagreement, int) {
	var ds []Disagreement
	execs := 0
	sc := c.Scale
	if sc == nil || len(c.Prog) != 1 || c.Prog[0].K != "send" || c.Prog[0].Amt < 0 || len(sc.P1) != len(sc.P2) {
		return nil, 0
	}
	for _, mu := range Multipliers(sc.Den, c.Prog[0].Amt) {
		if mu.M.Sign() <= 0 {
			continue
		}
		amount := new(big.Int).Add(new(big.Int).Mul(mu.M, big.NewInt(int64(sc.Den))), big.NewInt(int64(c.Prog[0].Amt)))
		want := make([]RPosting, len(sc.P1))
		m1 := new(big.Int).Sub(mu.M, big.NewInt(1))
		for i := range sc.P1 {
			n := new(big.Int).Mul(m1, big.NewInt(int64(sc.P2[i].N-sc.P1[i].N)))
			n.Add(n, big.NewInt(int64(sc.P1[i].N)))
			if c.Inject == "scaled-part" && i == 0 {
				n.Add(n, big.NewInt(1))
			}
			want[i] = RPosting{S: sc.P1[i].S, D: sc.P1[i].D, As: sc.P1[i].As, N: n.String()}
		}
		prog := []Stmt{c.Prog[0]}
		prog[0].AmtBig = amount.String()
		for _, mode := range opt.Modes {
			rd := Render(prog, mode)
			runs := []Result{RunMachineDirect(rd.Script, rd.Vars, c.Bal, StoreNormal, "")}
			if opt.WithAdapter {
				runs = append(runs, RunMachineAdapter(rd.Script, rd.Vars, c.Bal, StoreNormal))
			}
			for _, r := range runs {
				execs++
				switch {
				case r.Panic != "":
					ds = append(ds, Disagreement{Kind: "robust/panic/" + r.Runtime, Mode: mode, Detail: firstLines(r.Panic, 6)})
				case r.Hang:
					ds = append(ds, Disagreement{Kind: "robust/hang/" + r.Runtime, Mode: mode, Detail: "no result"})
				case !r.Ok:
					ds = append(ds, Disagreement{Kind: "machine-vs-spec/scaled-" + mu.Label + "/unexpected-error", Mode: mode,
						Detail: fmt.Sprintf("amount %s: spec: %s; %s: error %q", amount, PostingsString(want), r.Runtime, r.Err)})
				case !SamePostings(want, r.Posts):
					ds = append(ds, Disagreement{Kind: "machine-vs-spec/scaled-" + mu.Label + "/postings", Mode: mode,
						Detail: fmt.Sprintf("amount %s: spec: %s; %s: %s || script: %s", amount, PostingsString(want), r.Runtime, PostingsString(r.Posts), strings.ReplaceAll(rd.Script, "\n", "\\n "))})
				}
			}
		}
	}
	return ds, execs
}

// Signature of a disagreement for known-findings matching: kind + the feature of the program that
// characterises the class (so that other failures of the same property are still reported).
func Signature(c *Case, d Disagreement) string {
	kind := d.Kind
	if strings.HasPrefix(kind, "interp-vs-") {
		if c.Exp.Kbr {
			// class K of the specification: a clause that keeps funds is followed by another clause
			return kind + "@kept-then-clause"
		}
		if c.Exp.Sneg {
			// class S of the specification: `save [A n]` took a tracked balance below zero
			return kind + "@save-below-zero"
		}
		if c.Exp.Zsplit && strings.HasSuffix(kind, "/postings") {
			// class Z of the specification: same-account parts separated by a zero-amount part
			return kind + "@zero-part-split"
		}
	}
	return kind + "@" + c.Fam
}
