package sysdrive

import (
	"context"
	"encoding/json"
	"fmt"
	"net/url"
	"sort"
	"strconv"

	"github.com/formancehq/ledger/verifharness/stack"
)

// Session is one history on one fresh environment; it keeps the mapping between the opaque exporter / pipeline ids
// of the code and their creation ranks (the ids of the specification).
type Session struct {
	E       *Env
	expIDs  []string // rank-1 -> id
	pipIDs  []string
	expRank map[string]int
	pipRank map[string]int
	Harness []string // problems of the harness itself (=> inconclusive)
}

func NewSession(fresh bool) (*Session, error) {
	e, err := NewEnv(EnvOptions{Fresh: fresh})
	if err != nil {
		return nil, err
	}
	return &Session{E: e, expRank: map[string]int{}, pipRank: map[string]int{}}, nil
}

func (s *Session) Close() { s.E.Close() }

func (s *Session) expID(rank int) string {
	if rank >= 1 && rank <= len(s.expIDs) {
		return s.expIDs[rank-1]
	}
	return NoID
}

func (s *Session) pipID(rank int) string {
	if rank >= 1 && rank <= len(s.pipIDs) {
		return s.pipIDs[rank-1]
	}
	return NoID
}

func (s *Session) rankExp(id string) int {
	if r, ok := s.expRank[id]; ok {
		return r
	}
	s.expIDs = append(s.expIDs, id)
	s.expRank[id] = len(s.expIDs)
	return len(s.expIDs)
}

func (s *Session) rankPip(id string) int {
	if r, ok := s.pipRank[id]; ok {
		return r
	}
	s.pipIDs = append(s.pipIDs, id)
	s.pipRank[id] = len(s.pipIDs)
	return len(s.pipIDs)
}

func seg(n string) string { return url.PathEscape(n) }

var txBody = `{"postings":[{"source":"world","destination":"bank","asset":"USD","amount":1}]}`

func asInt(v any) int {
	switch x := v.(type) {
	case json.Number:
		n, _ := strconv.Atoi(string(x))
		return n
	case float64:
		return int(x)
	}
	return 0
}

func asKV(v any) KV {
	out := KV{}
	if m, ok := v.(map[string]any); ok {
		for k, x := range m {
			out[k] = fmt.Sprint(x)
		}
	}
	return out
}

func recOf(v any) Rec {
	m, _ := v.(map[string]any)
	r := Rec{Feat: asKV(m["features"]), Meta: asKV(m["metadata"])}
	r.Name, _ = m["name"].(string)
	r.Bucket, _ = m["bucket"].(string)
	r.ID = asInt(m["id"])
	_, r.Del = m["deletedAt"]
	return r
}

func dataOf(r *stack.Resp) any {
	v, err := r.JSON()
	if err != nil {
		return nil
	}
	m, _ := v.(map[string]any)
	return m["data"]
}

func cursorOf(r *stack.Resp) (data []any, next string, hasMore bool, pageSize int) {
	v, err := r.JSON()
	if err != nil {
		return
	}
	m, _ := v.(map[string]any)
	c, _ := m["cursor"].(map[string]any)
	data, _ = c["data"].([]any)
	next, _ = c["next"].(string)
	hasMore, _ = c["hasMore"].(bool)
	pageSize = asInt(c["pageSize"])
	return
}

// listAll follows "next" until hasMore = false; returns the records page by page. problem != "" when the cursor
// protocol itself is broken (hasMore without next, endless chain).
func (s *Session) listAll(first string) (pages [][]Rec, r0 *stack.Resp, problem string) {
	path := first
	for k := 0; k < 64; k++ {
		r := s.E.Do("GET", path, nil)
		if k == 0 {
			r0 = r
		}
		if r.Status != 200 {
			if k > 0 {
				problem = fmt.Sprintf("page %d answered %d", k+1, r.Status)
			}
			return
		}
		data, next, more, _ := cursorOf(r)
		pg := make([]Rec, 0, len(data))
		for _, d := range data {
			pg = append(pg, recOf(d))
		}
		pages = append(pages, pg)
		if !more {
			return
		}
		if next == "" {
			problem = "hasMore without next"
			return
		}
		path = "/v2?cursor=" + url.QueryEscape(next)
	}
	problem = "endless cursor chain"
	return
}

func idsOf(pages [][]Rec) [][]int {
	out := make([][]int, 0, len(pages))
	for _, pg := range pages {
		ids := make([]int, 0, len(pg))
		for _, r := range pg {
			ids = append(ids, r.ID)
		}
		out = append(out, ids)
	}
	return out
}

// Exec issues the request of op against the real router and classifies the response.
func (s *Session) Exec(op Op) Res {
	op.Norm()
	res := Res{Rec: NoRec, Pages: [][]int{}, Ids: []int{}}
	var r *stack.Resp
	e := s.E
	lp := "/v2/" + seg(op.N)
	switch op.K {
	case "create":
		var body any
		if op.Bad == "json" {
			body = `{"bucket":`
		} else {
			m := map[string]any{}
			if op.B != "" {
				m["bucket"] = op.B
			}
			if len(op.F) > 0 {
				m["features"] = map[string]string(op.F)
			}
			if len(op.M) > 0 {
				m["metadata"] = map[string]string(op.M)
			}
			if len(m) > 0 {
				body = m
			}
		}
		r = e.Do("POST", lp, body)
	case "get":
		r = e.Do("GET", lp, nil)
		if r.Status == 200 {
			res.Rec = recOf(dataOf(r))
		}
	case "setmeta":
		if op.Bad == "json" {
			r = e.Do("PUT", lp+"/metadata", `[1]`)
		} else {
			r = e.Do("PUT", lp+"/metadata", map[string]string(op.M))
		}
	case "delmeta":
		r = e.Do("DELETE", lp+"/metadata/"+seg(op.Key), nil)
	case "delbucket":
		r = e.Do("DELETE", "/v2/_/buckets/"+seg(op.B), nil)
	case "restore":
		r = e.Do("POST", "/v2/_/buckets/"+seg(op.B)+"/restore", nil)
	case "list":
		q := url.Values{}
		q.Set("pageSize", strconv.Itoa(op.Ps))
		if op.Inc {
			q.Set("includeDeleted", "true")
		}
		if op.Desc {
			q.Set("sort", "id:desc")
		}
		if fq := op.Flt.Query(); fq != nil {
			b, _ := json.Marshal(fq)
			q.Set("query", string(b))
		}
		pages, r0, problem := s.listAll("/v2?" + q.Encode())
		r = r0
		if problem != "" {
			res.Out, res.St, res.Msg = "other", r.Status, problem
			return res
		}
		res.Pages = idsOf(pages)
	case "info":
		r = e.Do("GET", lp+"/_info", nil)
		if r.Status == 200 {
			m, _ := dataOf(r).(map[string]any)
			res.Name, _ = m["name"].(string)
		}
	case "stats":
		r = e.Do("GET", lp+"/stats", nil)
		if r.Status == 200 {
			m, _ := dataOf(r).(map[string]any)
			res.Num = asInt(m["transactions"])
		}
	case "read":
		r = e.Do("GET", lp+"/transactions?pageSize=100", nil)
		if r.Status == 200 {
			data, _, _, _ := cursorOf(r)
			res.Num = len(data)
		}
	case "write":
		r = e.Do("POST", lp+"/transactions", txBody)
	case "ecreate", "eupd":
		var body any
		switch {
		case op.Bad == "json":
			body = `{"driver":`
		case op.Bad == "config":
			body = map[string]any{"driver": op.Drv, "config": []int{1}}
		default:
			body = map[string]any{"driver": op.Drv, "config": map[string]any{}}
		}
		if op.K == "ecreate" {
			r = e.Do("POST", "/v2/_/exporters", body)
			if r.Status == 201 {
				m, _ := dataOf(r).(map[string]any)
				id, _ := m["id"].(string)
				res.Num = s.rankExp(id)
			}
		} else {
			r = e.Do("PUT", "/v2/_/exporters/"+s.expID(op.X), body)
		}
	case "eget":
		r = e.Do("GET", "/v2/_/exporters/"+s.expID(op.X), nil)
		if r.Status == 200 {
			m, _ := dataOf(r).(map[string]any)
			id, _ := m["id"].(string)
			res.Num = s.expRank[id]
		}
	case "elist":
		r = e.Do("GET", "/v2/_/exporters", nil)
		if r.Status == 200 {
			data, _, _, _ := cursorOf(r)
			for _, d := range data {
				m, _ := d.(map[string]any)
				id, _ := m["id"].(string)
				res.Ids = append(res.Ids, s.expRank[id])
			}
			sort.Ints(res.Ids)
		}
	case "edel":
		r = e.Do("DELETE", "/v2/_/exporters/"+s.expID(op.X), nil)
	case "pcreate":
		if op.Bad == "json" {
			r = e.Do("POST", lp+"/pipelines", `{"exporterID":`)
		} else {
			r = e.Do("POST", lp+"/pipelines", map[string]any{"exporterID": s.expID(op.X)})
		}
		if r.Status == 201 {
			res.Num = s.rankPip(s.pipOf(dataOf(r)).id)
		}
	case "plist":
		r = e.Do("GET", lp+"/pipelines", nil)
		if r.Status == 200 {
			data, _, _, _ := cursorOf(r)
			for _, d := range data {
				res.Ids = append(res.Ids, s.pipRank[s.pipOf(d).id])
			}
			sort.Ints(res.Ids)
		}
	case "pget":
		r = e.Do("GET", lp+"/pipelines/"+s.pipID(op.P), nil)
		if r.Status == 200 {
			p := s.pipOf(dataOf(r))
			res.Pip = PipRec{ID: s.pipRank[p.id], Ledger: p.ledger, Exp: s.expRank[p.exp]}
		}
	case "pstart":
		r = e.Do("POST", lp+"/pipelines/"+s.pipID(op.P)+"/start", nil)
	case "pstop":
		r = e.Do("POST", lp+"/pipelines/"+s.pipID(op.P)+"/stop", nil)
	case "preset":
		r = e.Do("POST", lp+"/pipelines/"+s.pipID(op.P)+"/reset", nil)
	case "pdel":
		r = e.Do("DELETE", lp+"/pipelines/"+s.pipID(op.P), nil)
	default:
		res.Out, res.Msg = "other", "unknown op "+op.K
		return res
	}
	res.St = r.Status
	res.Out, res.Msg = classify(r.Status, r.Body)
	return res
}

type rawPip struct{ id, ledger, exp string }

func (s *Session) pipOf(v any) rawPip {
	m, _ := v.(map[string]any)
	var p rawPip
	p.id, _ = m["id"].(string)
	p.ledger, _ = m["ledger"].(string)
	p.exp, _ = m["exporterID"].(string)
	return p
}

// Observe reads the whole system through the API (plus the controller's pipeline list).
func (s *Session) Observe() Obs {
	o := Obs{All: []Rec{}, Pages: [][]int{}, Get: []GetObs{}, Probe: []ProbeObs{}, Acc: []AccObs{}, Exps: []int{}, Pips: []PipRec{}}
	pages, r0, problem := s.listAll("/v2?includeDeleted=true&pageSize=100")
	if r0.Status != 200 || problem != "" {
		s.Harness = append(s.Harness, fmt.Sprintf("full listing failed: %d %s", r0.Status, problem))
	}
	for _, pg := range pages {
		o.All = append(o.All, pg...)
	}
	vis, r1, problem := s.listAll("/v2?pageSize=2")
	if r1.Status != 200 || problem != "" {
		s.Harness = append(s.Harness, fmt.Sprintf("paged listing failed: %d %s", r1.Status, problem))
	}
	o.Pages = idsOf(vis)
	names := make([]string, 0, len(o.All)+1)
	for _, r := range o.All {
		names = append(names, r.Name)
	}
	for _, n := range append(append([]string{}, names...), "l0") {
		r := s.E.Do("GET", "/v2/"+seg(n), nil)
		g := GetObs{N: n, Rec: NoRec}
		g.Out, _ = classify(r.Status, r.Body)
		if r.Status == 200 {
			g.Rec = recOf(dataOf(r))
		}
		o.Get = append(o.Get, g)
	}
	// write probe: the oldest ledger of every bucket
	seen := map[string]bool{}
	for _, r := range o.All {
		if seen[r.Bucket] {
			continue
		}
		seen[r.Bucket] = true
		w := s.E.Do("POST", "/v2/"+seg(r.Name)+"/transactions", txBody)
		out, _ := classify(w.Status, w.Body)
		o.Probe = append(o.Probe, ProbeObs{N: r.Name, Out: out})
	}
	for _, n := range names {
		r := s.E.Do("GET", "/v2/"+seg(n)+"/transactions?pageSize=100", nil)
		a := AccObs{N: n}
		a.Rd, _ = classify(r.Status, r.Body)
		if r.Status == 200 {
			data, _, _, _ := cursorOf(r)
			a.Ntx = len(data)
		}
		o.Acc = append(o.Acc, a)
	}
	if r := s.E.Do("GET", "/v2/_/exporters", nil); r.Status == 200 {
		data, _, _, _ := cursorOf(r)
		for _, d := range data {
			m, _ := d.(map[string]any)
			id, _ := m["id"].(string)
			o.Exps = append(o.Exps, s.rankExp(id))
		}
		sort.Ints(o.Exps)
	} else {
		s.Harness = append(s.Harness, fmt.Sprintf("exporters listing failed: %d", r.Status))
	}
	if cur, err := s.E.Manager.ListPipelines(context.Background()); err == nil && cur != nil {
		for _, p := range cur.Data {
			o.Pips = append(o.Pips, PipRec{ID: s.rankPip(p.ID), Ledger: p.Ledger, Exp: s.expRank[p.ExporterID]})
		}
		sort.Slice(o.Pips, func(i, j int) bool { return o.Pips[i].ID < o.Pips[j].ID })
	} else {
		s.Harness = append(s.Harness, fmt.Sprintf("pipelines listing failed: %v", err))
	}
	return o
}
