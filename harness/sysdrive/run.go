package sysdrive

import "fmt"

// RunCase runs one history on a fresh database and returns its trace lines. When c.Ops is empty the history is
// generated online from c.Seed (and stored in c.Ops); otherwise c.Ops is replayed as is.
func RunCase(c *Case) ([]Line, []string, error) {
	s, err := NewSession(c.Fresh)
	if err != nil {
		return nil, nil, err
	}
	defer s.Close()
	lines := make([]Line, 0, c.Len+1)
	reset := Op{}
	reset.Norm()
	obs := s.Observe()
	lines = append(lines, Line{Case: c.Case, Reset: true, I: 0, Op: reset, Res: Res{Out: "", Rec: NoRec, Pages: [][]int{}, Ids: []int{}}, St: obs})
	replay := len(c.Ops) > 0
	var g *Gen
	if !replay {
		g = NewGen(c.Seed)
		c.Kind = g.Kind
	}
	n := c.Len
	if replay {
		n = len(c.Ops)
	}
	for i := 0; i < n; i++ {
		var op Op
		if replay {
			op = c.Ops[i]
			op.Norm()
		} else {
			op = g.Next(i, obs)
			c.Ops = append(c.Ops, op)
		}
		s.E.Tick()
		res := s.Exec(op)
		if s.E.Hung {
			// the request did not return: the line keeps the previous observation and the history stops
			res.Out = "hang"
			lines = append(lines, Line{Case: c.Case, I: i + 1, Op: op, Res: res, St: obs})
			break
		}
		obs = s.Observe()
		if s.E.Hung {
			s.Harness = append(s.Harness, "a request of the observation did not return")
			break
		}
		lines = append(lines, Line{Case: c.Case, I: i + 1, Op: op, Res: res, St: obs})
	}
	harness := s.Harness
	if u := s.E.PG.UnsupportedSeen(); len(u) > 0 {
		harness = append(harness, fmt.Sprintf("unsupported SQL: %v", u))
	}
	return lines, harness, nil
}

// TwoBucketsScenario: ledgers in two never-migrated buckets over the pooled connection (directed probe of the session
// state that bucket migrations leave behind; fixed c6bd878).
func TwoBucketsScenario(caseNo int) *Case {
	return &Case{Case: caseNo, Kind: "twobuckets", Ops: []Op{
		{K: "create", N: "l1", B: "b3"},
		{K: "create", N: "l2", B: "_default"},
		{K: "write", N: "l1"},
		{K: "get", N: "l2"},
	}}
}

// UnknownPipelineScenario: every pipeline route on an id that does not exist, through an alive ledger (fixed
// 834e7ba: read and start answered 500), then the life cycle of a real pipeline seen through ANOTHER ledger.
func UnknownPipelineScenario(caseNo int) *Case {
	return &Case{Case: caseNo, Kind: "unknownpipeline", Ops: []Op{
		{K: "create", N: "l1", B: "b1"},
		{K: "create", N: "l2", B: "b2"},
		{K: "pget", N: "l1"}, {K: "pstart", N: "l1"}, {K: "pstop", N: "l1"}, {K: "pdel", N: "l1"}, {K: "preset", N: "l1"},
		{K: "ecreate", Drv: "noop"},
		{K: "pcreate", N: "l1", X: 1},
		{K: "pcreate", N: "l1", X: 1},
		{K: "pget", N: "l2", P: 1},
		{K: "pstart", N: "l2", P: 1},
		{K: "pstop", N: "l2", P: 1},
		{K: "pstop", N: "l2", P: 1},
		{K: "pdel", N: "l2", P: 1},
		{K: "preset", N: "l2", P: 1},
		{K: "pstart", N: "l1", P: 1},
		{K: "delbucket", B: "b1"},
		{K: "plist", N: "l1"},
		{K: "plist", N: "l2"},
		{K: "preset", N: "l2", P: 1},
		{K: "pstart", N: "l2", P: 1},
		{K: "restore", B: "b1"},
		{K: "pstart", N: "l2", P: 1},
		{K: "pdel", N: "l1", P: 1},
		{K: "edel", X: 1},
		{K: "elist"},
	}}
}

// Directed returns the directed scenarios, numbered from base.
func Directed(base int) []*Case {
	return []*Case{TwoBucketsScenario(base), UnknownPipelineScenario(base + 1)}
}
