package sysdrive

import (
	"math/rand"
)

// Gen draws the next request of a history from the seed and the last observation (online generation: the
// recorded operations are stored in the case, which is what a replay needs).
//
// A history uses at most 4 ledger names (3 legal + 1 illegal / reserved / routed) and at most 3 buckets
// (2 legal + 1 of: illegal, "_system", "" (= _default), never-migrated b3).
//
// Restrictions (test environment, see System.tla): pgmodel has no foreign keys, so the generator never creates a
// pipeline on an exporter that does not exist and never deletes an exporter that still has pipelines; it does not
// update an exporter while some pipeline could not be started (the order in which the synchronisation loop meets
// the failing pipeline is storage order).
type Gen struct {
	r       *rand.Rand
	Kind    string // "registry" | "pipelines"
	names   []string
	badName string
	buckets []string
	oddB    string
}

func pick[T any](r *rand.Rand, xs []T) T { return xs[r.Intn(len(xs))] }

func NewGen(seed int64) *Gen {
	r := rand.New(rand.NewSource(seed))
	g := &Gen{r: r}
	if r.Intn(10) < 3 {
		g.Kind = "pipelines"
	} else {
		g.Kind = "registry"
	}
	perm := r.Perm(len(GoodNames))
	// l1..l3 are favoured; the exotic legal names appear in about a third of the histories
	g.names = []string{"l1", "l2", "l3"}
	if r.Intn(3) == 0 {
		g.names[r.Intn(3)] = GoodNames[3+perm[0]%2]
	}
	bad := append(append(append([]string{}, FormatNames...), Reserved...), RouteNames...)
	g.badName = pick(r, bad)
	g.buckets = []string{"b1", "b2"}
	switch r.Intn(10) {
	case 0:
		g.oddB = "b3" // migrated by CreateLedger
	case 1:
		g.oddB = "" // _default, migrated by CreateLedger
	case 2, 3:
		g.oddB = SystemBucket
	case 4:
		g.oddB = N64
	default:
		g.oddB = "bad.bucket"
	}
	return g
}

func (g *Gen) name() string {
	if g.r.Intn(8) == 0 {
		return g.badName
	}
	return pick(g.r, g.names)
}

func (g *Gen) bucket() string {
	if g.r.Intn(7) == 0 {
		return g.oddB
	}
	return pick(g.r, g.buckets)
}

// a bucket for delete / restore: mostly one in use, sometimes unused or illegal (the routes validate nothing)
func (g *Gen) anyBucket(o Obs) string {
	switch g.r.Intn(10) {
	case 0:
		if len(o.All) > 0 && g.r.Intn(2) == 0 {
			return pick(g.r, o.All).Name // a ledger name is not a bucket name
		}
		return "nope"
	case 1:
		if g.oddB != "" {
			return g.oddB
		}
		return "_default"
	}
	if len(o.All) > 0 && g.r.Intn(3) > 0 {
		return pick(g.r, o.All).Bucket
	}
	return pick(g.r, g.buckets)
}

func (g *Gen) meta() KV {
	m := KV{}
	for _, k := range MetaKeys {
		if g.r.Intn(2) == 0 {
			m[k] = pick(g.r, MetaVals)
		}
	}
	if len(m) == 0 {
		m[pick(g.r, MetaKeys)] = pick(g.r, MetaVals)
	}
	return m
}

func (g *Gen) features() KV {
	switch g.r.Intn(12) {
	case 0:
		return KV{"NOPE": "ON"}
	case 1:
		return KV{"HASH_LOGS": "ON"}
	case 2, 3:
		return KV{"HASH_LOGS": "DISABLED"}
	case 4:
		return KV{"MOVES_HISTORY": "OFF", "MOVES_HISTORY_POST_COMMIT_EFFECTIVE_VOLUMES": "DISABLED"}
	case 5:
		return KV{"ACCOUNT_METADATA_HISTORY": "DISABLED", "TRANSACTION_METADATA_HISTORY": "DISABLED"}
	}
	return KV{}
}

func (g *Gen) atom(o Obs) Filter {
	switch g.r.Intn(7) {
	case 0:
		return Filter{T: "bucket", V: g.anyBucket(o)}
	case 1:
		return Filter{T: "feat", A: "HASH_LOGS", V: pick(g.r, []string{"SYNC", "DISABLED"})}
	case 2:
		return Filter{T: "feat", A: "MOVES_HISTORY", V: pick(g.r, []string{"ON", "OFF"})}
	case 3:
		return Filter{T: "meta", A: pick(g.r, MetaKeys), V: pick(g.r, MetaVals)}
	case 4:
		return Filter{T: "metaex", V: pick(g.r, MetaKeys)}
	case 5:
		return Filter{T: "name", V: pick(g.r, g.names)}
	}
	return Filter{T: "bucket", V: pick(g.r, g.buckets)}
}

func (g *Gen) filter(o Obs) Filter {
	switch g.r.Intn(10) {
	case 0, 1, 2:
		return Filter{T: "none"}
	case 3, 4, 5:
		return g.atom(o)
	case 6:
		return Filter{T: "not", Sub: []Filter{g.atom(o)}}
	case 7:
		return Filter{T: "and", Sub: []Filter{g.atom(o), g.atom(o)}}
	case 8:
		return Filter{T: "or", Sub: []Filter{g.atom(o), g.atom(o)}}
	}
	return Filter{T: "unknown", V: "x"}
}

type weighted struct {
	w int
	k string
}

var registryMix = []weighted{{26, "create"}, {10, "setmeta"}, {6, "delmeta"}, {12, "delbucket"}, {10, "restore"},
	{12, "list"}, {4, "get"}, {3, "info"}, {3, "stats"}, {2, "read"}, {6, "write"}}

var pipelineMix = []weighted{{12, "create"}, {6, "delbucket"}, {5, "restore"}, {10, "ecreate"}, {3, "eget"}, {2, "elist"},
	{4, "edel"}, {5, "eupd"}, {15, "pcreate"}, {4, "plist"}, {5, "pget"}, {8, "pstart"}, {8, "pstop"}, {6, "pdel"},
	{6, "preset"}, {2, "write"}, {2, "list"}}

func (g *Gen) kindOf(i int) string {
	mix := registryMix
	if g.Kind == "pipelines" {
		mix = pipelineMix
		// get something to work on early
		switch i {
		case 0:
			return "create"
		case 1:
			return "ecreate"
		}
	} else if i == 0 {
		return "create"
	}
	tot := 0
	for _, w := range mix {
		tot += w.w
	}
	x := g.r.Intn(tot)
	for _, w := range mix {
		if x < w.w {
			return w.k
		}
		x -= w.w
	}
	return "get"
}

func alive(o Obs, n string) bool {
	for _, r := range o.All {
		if r.Name == n {
			return !r.Del
		}
	}
	return false
}

func effBucket(b string) string {
	if b == "" {
		return "_default"
	}
	return b
}

func bucketInUse(o Obs, b string) bool {
	for _, r := range o.All {
		if r.Bucket == b {
			return true
		}
	}
	return false
}

func hasExp(o Obs, x int) bool {
	for _, e := range o.Exps {
		if e == x {
			return true
		}
	}
	return false
}

// Next draws request number i (0-based) given the last observation.
func (g *Gen) Next(i int, o Obs) Op {
	op := Op{K: g.kindOf(i)}
	r := g.r
	expRef := func() int { // mostly an existing exporter
		if len(o.Exps) > 0 && r.Intn(6) > 0 {
			return pick(r, o.Exps)
		}
		return 0
	}
	pipRef := func() int {
		if len(o.Pips) > 0 && r.Intn(6) > 0 {
			return pick(r, o.Pips).ID
		}
		return 0
	}
	switch op.K {
	case "create":
		op.N, op.B, op.F = g.name(), g.bucket(), g.features()
		if r.Intn(4) == 0 {
			op.M = g.meta()
		}
		if r.Intn(25) == 0 {
			op.Bad = "json"
		}
		// pgmodel does not undo DDL on ROLLBACK: a creation that migrates a new bucket and then fails on the
		// duplicate name would leave that bucket half-initialised (real PostgreSQL rolls the schema back)
		if eff := effBucket(op.B); eff != "b1" && eff != "b2" && !bucketInUse(o, eff) {
			for _, x := range o.All {
				if x.Name == op.N {
					op.B = "b1"
				}
			}
		}
	case "get", "info", "stats", "read", "write":
		op.N = g.name()
	case "setmeta":
		op.N, op.M = g.name(), g.meta()
		if r.Intn(15) == 0 {
			op.Bad = "json"
		}
	case "delmeta":
		op.N, op.Key = g.name(), pick(r, MetaKeys)
	case "delbucket", "restore":
		op.B = g.anyBucket(o)
	case "list":
		op.Ps = pick(r, []int{1, 1, 2, 2, 3, 15})
		op.Inc = r.Intn(3) == 0
		op.Desc = r.Intn(4) == 0
		op.Flt = g.filter(o)
	case "ecreate":
		op.Drv = "noop"
		switch r.Intn(8) {
		case 0:
			op.Drv = "nope"
		case 1:
			op.Bad = "config"
		case 2:
			op.Bad = "json"
		}
	case "eget":
		op.X = expRef()
	case "elist":
	case "edel":
		op.X = expRef()
		for _, p := range o.Pips { // no foreign keys in pgmodel: see the type comment
			if p.Exp == op.X {
				op.K = "eget"
				break
			}
		}
	case "eupd":
		op.X, op.Drv = expRef(), "noop"
		if r.Intn(6) == 0 {
			op.Drv = "nope"
		}
		for _, p := range o.Pips {
			if !alive(o, p.Ledger) || !hasExp(o, p.Exp) {
				op.K = "elist"
				break
			}
		}
	case "pcreate":
		op.N = g.name()
		if len(o.Exps) == 0 {
			op.K, op.Drv = "ecreate", "noop"
			op.N = ""
			break
		}
		op.X = pick(r, o.Exps)
		if r.Intn(20) == 0 {
			op.Bad = "json"
		}
	case "plist":
		op.N = g.name()
	case "pget", "pstart", "pstop", "pdel", "preset":
		op.N, op.P = g.name(), pipRef()
	}
	if g.Kind == "pipelines" && op.K[0] == 'p' && r.Intn(4) > 0 {
		// pipeline routes sit behind the ledger middleware: mostly go through an alive ledger
		var al []string
		for _, x := range o.All {
			if !x.Del {
				al = append(al, x.Name)
			}
		}
		if len(al) > 0 {
			op.N = pick(r, al)
		}
	}
	op.Norm()
	return op
}
