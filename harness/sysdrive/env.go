// Package sysdrive drives the SYSTEM level of the service (ledger registry, bucket lifecycle, exporters and
// pipelines CRUD) through the repository's real v2 HTTP router over pgmodel, and records NDJSON traces that
// spec/TraceSystem.tla validates against spec/System.tla.
package sysdrive

import (
	"bytes"
	"context"
	"encoding/json"
	"fmt"
	"io"
	"net/http"
	"net/http/httptest"
	"os"
	"strings"
	"sync"
	"sync/atomic"
	"time"

	"github.com/formancehq/go-libs/v5/pkg/authn/jwt"
	logging "github.com/formancehq/go-libs/v5/pkg/observe/log"

	"github.com/formancehq/ledger/internal/api"
	"github.com/formancehq/ledger/internal/api/bulking"
	systemcontroller "github.com/formancehq/ledger/internal/controller/system"
	"github.com/formancehq/ledger/internal/replication"
	"github.com/formancehq/ledger/internal/replication/drivers"
	"github.com/formancehq/ledger/internal/replication/drivers/noop"
	systemstore "github.com/formancehq/ledger/internal/storage/system"
	"github.com/formancehq/ledger/verifharness/pgmodel"
	"github.com/formancehq/ledger/verifharness/stack"
)

var (
	bootOnce sync.Once
	bootDB   *pgmodel.DB
	bootErr  error
)

// BootBuckets are migrated once per process (no ledgers); every history starts from a deep copy. A bucket
// that is NOT in this list (b3) is migrated by the real CreateLedger when its first ledger is created.
var BootBuckets = []string{"b1", "b2"}

func bootstrapped() (*pgmodel.DB, error) {
	bootOnce.Do(func() {
		bootDB, bootErr = stack.Bootstrap(context.Background(), BootBuckets...)
	})
	return bootDB, bootErr
}

var quietLogger = logging.NewDefaultLogger(io.Discard, false, false, false)

// Env is one fresh database + the real stack, with the real router built WITH the exporters / pipelines routes
// (the system controller gets the repository's replication.Manager over the real system store).
type Env struct {
	St      *stack.Stack
	PG      *pgmodel.DB
	Sys     *systemcontroller.DefaultController
	Manager *replication.Manager
	router  http.Handler
	now     atomic.Int64
	Hung    bool // a request did not return
}

func timeOf(u int64) time.Time {
	return time.Date(2024, 1, 1, 0, 0, 0, 0, time.UTC).Add(time.Duration(u) * time.Second)
}

type EnvOptions struct {
	Fresh bool // do NOT keep idle connections
}

func NewEnv(opts EnvOptions) (*Env, error) {
	boot, err := bootstrapped()
	if err != nil {
		return nil, err
	}
	pg := boot.Clone()
	e := &Env{PG: pg}
	e.now.Store(1)
	pg.Clock = func() time.Time { return timeOf(e.now.Load()) }
	e.St = stack.Open(pg, stack.Options{})
	if opts.Fresh {
		// one fresh database session per request (development aid). The default keeps the pool, as production
		// does: session state (temporary tables of migrations, search_path) survives between requests; the
		// directed "twobuckets" scenario of run.go depends on it (fixed c6bd878: migration 17 left a
		// session-scoped temporary table behind)
		e.St.SQL.SetMaxIdleConns(0)
	}
	if os.Getenv("VH_DEBUG") != "" {
		pg.Observer = func(ev pgmodel.StmtEvent) {
			if ev.Err != "" || os.Getenv("VH_DEBUG") == "2" {
				sql := ev.SQL
				if len(sql) > 1500 {
					sql = sql[:1500]
				}
				fmt.Fprintf(os.Stderr, "SQL sess=%d worker=%s err=%s\n    %s\n", ev.Sess, ev.Worker, ev.Err, sql)
			}
		}
	}
	sysStore := systemstore.New(e.St.Bun)
	registry := drivers.NewRegistry(quietLogger, sysStore)
	registry.RegisterDriver("noop", noop.NewDriver)
	e.Manager = replication.NewManager(
		replication.NewStorageAdapter(e.St.Driver, sysStore),
		registry,
		quietLogger,
		registry,
	)
	e.Sys = systemcontroller.NewDefaultController(
		systemcontroller.NewControllerStorageDriverAdapter(e.St.Driver, sysStore),
		e.St.Listener,
		e.Manager,
		systemcontroller.WithEnableFeatures(true),
	)
	e.router = api.NewRouter(e.Sys, jwt.NewNoAuth(), nil, "verif", os.Getenv("VH_DEBUG") != "",
		api.WithExporters(true),
		api.WithBulkerFactory(bulking.NewDefaultBulkerFactory(bulking.WithParallelism(10))),
	)
	return e, nil
}

func (e *Env) Close() {
	ctx, cancel := context.WithTimeout(context.Background(), 5*time.Second)
	defer cancel()
	done := make(chan struct{})
	go func() {
		defer close(done)
		e.StopPipelines(ctx)
	}()
	select {
	case <-done:
		e.St.Close()
	case <-time.After(10 * time.Second):
		// the manager is stuck: leave the database open for the goroutines that still use it
	}
}

// StopPipelines stops every running pipeline (the manager's Run loop is never started: no background sync).
func (e *Env) StopPipelines(ctx context.Context) {
	cur, err := e.Manager.ListPipelines(ctx)
	if err != nil || cur == nil {
		return
	}
	for _, p := range cur.Data {
		_ = e.Manager.StopPipeline(ctx, p.ID)
	}
}

func (e *Env) Tick() { e.now.Add(1) }

// Do issues one request against the in-process router.
func (e *Env) Do(method, path string, body any) *stack.Resp {
	var rd io.Reader
	switch b := body.(type) {
	case nil:
	case string:
		rd = strings.NewReader(b)
	case []byte:
		rd = bytes.NewReader(b)
	default:
		data, err := json.Marshal(b)
		if err != nil {
			panic(err)
		}
		rd = bytes.NewReader(data)
	}
	ctx := pgmodel.WithWorker(context.Background(), "sys")
	ctx = logging.ContextWithLogger(ctx, quietLogger)
	req := httptest.NewRequest(method, path, rd).WithContext(ctx)
	if rd != nil {
		req.Header.Set("Content-Type", "application/json")
	}
	rec := httptest.NewRecorder()
	done := make(chan struct{})
	go func() {
		defer close(done)
		e.router.ServeHTTP(rec, req)
	}()
	select {
	case <-done:
		return &stack.Resp{Status: rec.Code, Header: rec.Header(), Body: rec.Body.Bytes()}
	case <-time.After(RequestTimeout):
		// the request never returned (e.g. a manager operation blocked on a handler that is gone): reported as the
		// outcome "hang"; the history stops there (later requests could block on the same lock)
		e.Hung = true
		return &stack.Resp{Status: 0, Header: http.Header{}, Body: []byte("request did not return")}
	}
}

// RequestTimeout is far above what any request needs, even on a loaded machine.
var RequestTimeout = 30 * time.Second
