package sysdrive

import (
	"encoding/json"
	"sort"
	"strings"
)

// Universe of names (spec/System.tla classifies exactly these).
var (
	N63 = "a23456789012345678901234567890123456789012345678901234567890123"
	N64 = "a234567890123456789012345678901234567890123456789012345678901234"

	GoodNames    = []string{"l1", "l2", "l3", "L-4_x", N63}
	FormatNames  = []string{"bad.name", "bad name", N64}
	Reserved     = []string{"_info", "_healthcheck"}
	RouteNames   = []string{"_"}
	GoodBuckets  = []string{"b1", "b2", "b3", "_default"}
	BadBuckets   = []string{"bad.bucket", N64}
	SystemBucket = "_system"
	MetaKeys     = []string{"k1", "k2"}
	MetaVals     = []string{"a", "b"}
	NoID         = "00000000-0000-0000-0000-000000000000"
)

// KV is a string map rendered as a sorted list of [key, value] pairs (TLC: sequence of 2-tuples; an empty JSON
// object would be ambiguous).
type KV map[string]string

func (m KV) MarshalJSON() ([]byte, error) {
	keys := make([]string, 0, len(m))
	for k := range m {
		keys = append(keys, k)
	}
	sort.Strings(keys)
	out := make([][2]string, 0, len(keys))
	for _, k := range keys {
		out = append(out, [2]string{k, m[k]})
	}
	return json.Marshal(out)
}

func (m *KV) UnmarshalJSON(data []byte) error {
	var ps [][2]string
	if err := json.Unmarshal(data, &ps); err != nil {
		return err
	}
	*m = KV{}
	for _, p := range ps {
		(*m)[p[0]] = p[1]
	}
	return nil
}

// Filter is the abstract filter of a listing: t in none|bucket|feat|meta|metaex|name|unknown|not|and|or.
type Filter struct {
	T   string   `json:"t"`
	A   string   `json:"a"`
	V   string   `json:"v"`
	Sub []Filter `json:"sub"`
}

func (f Filter) norm() Filter {
	if f.T == "" {
		f.T = "none"
	}
	if f.Sub == nil {
		f.Sub = []Filter{}
	}
	for i := range f.Sub {
		f.Sub[i] = f.Sub[i].norm()
	}
	return f
}

// Query renders the filter in the API's query language.
func (f Filter) Query() any {
	switch f.T {
	case "bucket":
		return map[string]any{"$match": map[string]any{"bucket": f.V}}
	case "feat":
		return map[string]any{"$match": map[string]any{"features[" + f.A + "]": f.V}}
	case "meta":
		return map[string]any{"$match": map[string]any{"metadata[" + f.A + "]": f.V}}
	case "metaex":
		return map[string]any{"$exists": map[string]any{"metadata": f.V}}
	case "name":
		return map[string]any{"$match": map[string]any{"name": f.V}}
	case "unknown":
		return map[string]any{"$match": map[string]any{"colour": f.V}}
	case "not":
		return map[string]any{"$not": f.Sub[0].Query()}
	case "and", "or":
		subs := make([]any, 0, len(f.Sub))
		for _, s := range f.Sub {
			subs = append(subs, s.Query())
		}
		return map[string]any{"$" + f.T: subs}
	}
	return nil
}

// Op is one abstract API request (fields as in NoOp of spec/System.tla; all always present).
type Op struct {
	K    string `json:"k"`
	N    string `json:"n"`
	B    string `json:"b"`
	F    KV     `json:"f"`
	M    KV     `json:"m"`
	Key  string `json:"key"`
	Ps   int    `json:"ps"`
	Inc  bool   `json:"inc"`
	Desc bool   `json:"desc"`
	Flt  Filter `json:"flt"`
	X    int    `json:"x"`   // exporter rank (0 = an id that does not exist)
	P    int    `json:"p"`   // pipeline rank (0 = an id that does not exist)
	Drv  string `json:"drv"` // exporter driver
	Bad  string `json:"bad"` // "json": malformed body; "config": exporter config of the wrong type
}

func (o *Op) Norm() {
	if o.F == nil {
		o.F = KV{}
	}
	if o.M == nil {
		o.M = KV{}
	}
	if o.Ps == 0 {
		o.Ps = 15
	}
	o.Flt = o.Flt.norm()
}

// Rec is a ledger as the API shows it.
type Rec struct {
	Name   string `json:"name"`
	Bucket string `json:"bucket"`
	Feat   KV     `json:"feat"`
	Meta   KV     `json:"meta"`
	ID     int    `json:"id"`
	Del    bool   `json:"del"`
}

var NoRec = Rec{Feat: KV{}, Meta: KV{}}

type PipRec struct {
	ID     int    `json:"id"`
	Ledger string `json:"ledger"`
	Exp    int    `json:"exp"`
}

// Res is the classified response. Exactly the field of the operation kind is meaningful.
type Res struct {
	Out   string  `json:"out"`
	St    int     `json:"st"`
	Rec   Rec     `json:"rec"`   // get
	Pages [][]int `json:"pages"` // list: ids page by page
	Num   int     `json:"num"`   // stats / read: transactions; ecreate / pcreate / eget: rank
	Ids   []int   `json:"ids"`   // elist / plist
	Pip   PipRec  `json:"pip"`   // pget
	Name  string  `json:"name"`  // info
	Msg   string  `json:"msg"`
}

type GetObs struct {
	N   string `json:"n"`
	Out string `json:"out"`
	Rec Rec    `json:"rec"`
}
type AccObs struct {
	N   string `json:"n"`
	Rd  string `json:"rd"`
	Ntx int    `json:"ntx"`
}
type ProbeObs struct {
	N   string `json:"n"`
	Out string `json:"out"`
}

// Obs is the system as observed through the API right after a request.
type Obs struct {
	All   []Rec      `json:"all"`   // GET /v2?includeDeleted=true (every page), id order
	Pages [][]int    `json:"pages"` // GET /v2?pageSize=2 following next: ids of the visible ledgers page by page
	Get   []GetObs   `json:"get"`   // GET /v2/{n} for every name of the registry (+ one unknown)
	Probe []ProbeObs `json:"probe"` // write probe on the oldest ledger of every bucket (done BEFORE acc)
	Acc   []AccObs   `json:"acc"`   // GET /v2/{n}/transactions for every name of the registry
	Exps  []int      `json:"exps"`  // GET /v2/_/exporters: ranks, sorted
	Pips  []PipRec   `json:"pips"`  // pipelines (controller view), sorted by rank
}

// Line is one NDJSON trace line.
type Line struct {
	Case  int  `json:"case"`
	Reset bool `json:"reset"`
	I     int  `json:"i"`
	Op    Op   `json:"op"`
	Res   Res  `json:"res"`
	St    Obs  `json:"st"`
}

type Case struct {
	Case   int    `json:"case"`
	Seed   int64  `json:"seed"`
	Len    int    `json:"len"`
	Fresh  bool   `json:"fresh"`
	Kind   string `json:"kind"`
	Ops    []Op   `json:"ops,omitempty"` // filled by the run (online generation): enough to replay
}

func classify(status int, body []byte) (string, string) {
	switch {
	case status == 0:
		return "hang", string(body)
	case status >= 200 && status < 300:
		return "ok", ""
	case status >= 500:
		return "internal", errMsg(body)
	}
	var e struct {
		ErrorCode    string `json:"errorCode"`
		ErrorMessage string `json:"errorMessage"`
	}
	if err := json.Unmarshal(body, &e); err != nil || e.ErrorCode == "" {
		if status == 404 && strings.Contains(string(body), "404 page not found") {
			return "no_route", ""
		}
		if status == 405 {
			return "no_method", ""
		}
		return "other", string(body)
	}
	switch {
	case status == 400 && e.ErrorCode == "VALIDATION":
		return "validation", e.ErrorMessage
	case status == 400 && e.ErrorCode == "LEDGER_ALREADY_EXISTS":
		return "conflict", e.ErrorMessage
	case status == 400 && e.ErrorCode == "OUTDATED_SCHEMA":
		return "outdated", e.ErrorMessage
	case status == 404 && e.ErrorCode == "NOT_FOUND":
		return "not_found", e.ErrorMessage
	case status == 404 && e.ErrorCode == "LEDGER_NOT_FOUND":
		return "ledger_not_found", e.ErrorMessage
	}
	return "other", e.ErrorCode + ": " + e.ErrorMessage
}

func errMsg(body []byte) string {
	s := string(body)
	if len(s) > 200 {
		s = s[:200]
	}
	return s
}
