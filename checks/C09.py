#!/usr/bin/env python3
"""Check of property C09: sequential histories (checks/ledger_common.py) = no, explored interleavings
(checks/conc_common.py) = yes. See DESIGN.md §6 C09."""
import os
import sys

sys.path.insert(0, os.path.dirname(os.path.abspath(__file__)))
sys.path.insert(0, os.path.join(os.path.dirname(os.path.abspath(__file__)), "..", "lib"))
import conc_common as K
import ledger_common as L
import ledger_mutators as M
import vlib

PROP = "C09"
SEQ = True


def run(c):
    if SEQ:
        d = L.build_pipeline(c.tier, c.seed)
        L.evaluate(c, PROP, d)
        pred, mut = M.CONTROLS[PROP]
        c.set("negative_control_sequential", L.negative_control(d, c.seed, pred, mut))
    dc = K.build_conc(c.tier, c.seed, PROP)
    K.evaluate_conc(c, PROP, dc)
    c.set("negative_control_concurrent", K.negative_control_conc(dc, c.seed, PROP, "StepC_C09_LinearChain", K.m_break_chain))


vlib.main(run, PROP, "model_checking")
