#!/usr/bin/env python3
"""Check of property C02: see checks/ledger_common.py (pipeline) and DESIGN.md §6 C02."""
import os
import sys

sys.path.insert(0, os.path.dirname(os.path.abspath(__file__)))
sys.path.insert(0, os.path.join(os.path.dirname(os.path.abspath(__file__)), "..", "lib"))
import ledger_common as L
import ledger_mutators as M
import reads_common as R
import vlib

PROP = "C02"


def run(c):
    d = L.build_pipeline(c.tier, c.seed)
    L.evaluate(c, PROP, d)
    pred, mut = M.CONTROLS[PROP]
    c.set("negative_control", L.negative_control(d, c.seed, pred, mut))
    # account volumes as of an instant are the fold too: decided by the point-in-time predicates of C03
    # (spec/TraceReads.tla Inv_C03_MovesAt) on the reads of the shared reads pipeline
    R.run_reads_stage(c, "C03", as_prop=PROP)


vlib.main(run, PROP, "model_checking")
