#!/usr/bin/env python3
"""Stand-alone runner of the SYSTEM-level stage (not a property check: the stage is attached to a property by the
lead).  python3 checks/SYS.py quick|thorough   exits 0 / 1 (VIOLATION) / 2 (INCONCLUSIVE) like the checks."""
import os
import sys

sys.path.insert(0, os.path.dirname(os.path.abspath(__file__)))
sys.path.insert(0, os.path.join(os.path.dirname(os.path.abspath(__file__)), "..", "lib"))
import system_common as S
import vlib


def run(c):
    info = S.system_stage(c, c.tier, c.seed)
    vlib.log("[sys] %s" % {k: info[k] for k in ("histories", "steps", "accepted_state_changes", "gen_s", "trace_s", "wall_s")})
    vlib.log("[sys] mc %s" % info.get("mc"))
    vlib.log("[sys] controls %s" % [(n["predicate"], n["rejected_by"][:3]) for n in info["negative_controls"]])


vlib.main(run, "SYS", "model_checking")
