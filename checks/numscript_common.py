"""Shared code of the Numscript checks C22, C23, C24, C26, C27 (engine "tlc-numscript").

Flow A: TLC evaluates spec/Numscript.tla on every enumerated / sampled case (MC_Numscript.tla,
MC_NumscriptAllot.tla): it checks the theorems of C22/C23/C24 on the case and prints the case
together with the outcome the specification prescribes. The Go harness (harness/numscript,
cmd/vh-numscript) renders each abstract program to Numscript text, runs it through the real
compiler + VM (vm.Machine and MachineNumscriptRuntimeAdapter) and the interpreter adapter, and
compares. This module runs the TLC jobs (several JVMs in parallel: TLC evaluates initial states
on a single thread), writes the case files, runs the harness, attributes disagreements to
properties and performs the negative controls.
"""
import concurrent.futures
import copy
import hashlib
import json
import os
import shutil
import subprocess
import sys

sys.path.insert(0, os.path.join(os.path.dirname(os.path.abspath(__file__)), "..", "lib"))
import vlib  # noqa: E402

ENGINE = "tlc-numscript"

# structured families (exhaustive) + seeded random family
FAMILIES = ["E1", "E2", "E3", "E4", "E5", "X"]
# number of TLC runs of the random family per tier (N programs each: see MC_Numscript_R_<tier>.cfg)
R_CHUNKS = {"quick": 1, "thorough": 4}
TLC_TIMEOUT = {"quick": 420, "thorough": 2400}

ASSUME_SCOPE = ("bounded program space: sends with <= 3 sources / <= 3 destinations per block, nesting depth <= 2 "
                "(quick) / <= 3 (thorough, random family), accounts a,b,c + world, assets COIN and USD/2, amounts 0..6, "
                "balances -2..4, portion denominators <= 4 (quick) / <= 12 (thorough); exhaustive over the structured "
                "families E1..E5, X and seeded sampling (TLC RandomElement, -seed from VERIF_SEED) of the larger space")
ASSUME_SPEC = ("spec/Numscript.tla models the machine runtime at funding level as read from internal/machine "
               "(drain order, zero-amount parts, merge of adjacent parts, kept funds returned to the front); "
               "`print`, `fail`, meta() variables and arithmetic expressions are not modelled")
ASSUME_STORE = ("the balance store is a stub answering GetBalances with the enumerated balances (what the real "
                "store guarantees: every queried pair is returned); no Postgres involved")


class Ctx:
    def __init__(self, c):
        self.c = c
        self.tier = c.tier
        self.seed = c.seed
        self.work = vlib.scratch("numscript")
        self.bin = None

    def close(self):
        shutil.rmtree(self.work, ignore_errors=True)

    def path(self, name):
        return os.path.join(self.work, name)


def build(ctx):
    ctx.bin = vlib.go_build("vh-numscript")
    return ctx.bin


# ------------------------------------------------------------------------------------------- TLC

def _diag(module, cfg, seed):
    """Re-run with the one-theorem-per-invariant cfg to name what failed."""
    d = cfg.replace(".cfg", "_diag.cfg")
    if not os.path.exists(os.path.join(vlib.SPEC, d)):
        return ""
    r = vlib.tlc(module, d, workers=2, timeout=1200, deadlock=False, seed=seed, heap="3g")
    names = [n for (_, n) in r.violations]
    i = r.out.find("Error:")
    return "theorem(s) failing: %s\n%s" % (names, r.out[i:i + 2500] if i >= 0 else "")


def _run_tlc_job(job):
    module, cfg, seed, label, timeout, extra, out_file = job
    r = vlib.tlc(module, cfg, workers=1, timeout=timeout, deadlock=False, seed=seed, extra_files=extra, heap="3g")
    lines = []
    for line in r.out.splitlines():
        line = line.strip()
        if line.startswith('<<"CASE", "') and line.endswith('">>'):
            try:
                obj = json.loads(json.loads(line[len('<<"CASE", '):-2]))
            except Exception:
                continue
            lines.append(json.dumps(obj, sort_keys=True, separators=(",", ":")))
    tail = r.out[-3000:]
    r.out = ""      # the raw output can be hundreds of MB
    lines.sort()    # TLC's print order is irrelevant; the case file is deterministic
    with open(out_file, "w") as fh:
        for l in lines:
            fh.write(l + "\n")
    return label, r, len(lines), tail


def run_tlc_jobs(ctx, jobs, out_path, max_parallel=8):
    """jobs: (module, cfg, seed, label, timeout, extra_files). Cases are written to out_path in job
    order, sorted inside a job. Several JVMs run in parallel (TLC evaluates initial states, i.e. all
    the work here, on one thread). Returns the number of cases."""
    c = ctx.c
    # JVMs in parallel: keep each one's GC from spawning one thread per core
    os.environ.setdefault("JDK_JAVA_OPTIONS", "-XX:ParallelGCThreads=2")
    results = {}
    jobs2 = [tuple(j) + (ctx.path("part-%d.ndjson" % i),) for i, j in enumerate(jobs)]
    with concurrent.futures.ThreadPoolExecutor(max_workers=max_parallel) as ex:
        for label, r, n, tail in ex.map(_run_tlc_job, jobs2):
            results[label] = (r, n, tail)
    total = 0
    with open(out_path, "w") as fh:
        for job in jobs2:
            label = job[3]
            r, n, tail = results[label]
            c.add_tlc(r, label)
            if not r.ok:
                why = ""
                if r.violations:
                    why = _diag(job[0], job[1], job[2])
                raise vlib.Inconclusive("TLC run %s failed on the specification alone (spec bug, never a verdict about "
                                        "the code): %s %s\n%s\n%s" % (label, r.violations, r.error, why, tail[-1500:]))
            if n != r.distinct:
                raise vlib.Inconclusive("TLC run %s: %d CASE lines parsed but %d distinct states (lost output)" %
                                        (label, n, r.distinct))
            with open(job[6]) as part:
                shutil.copyfileobj(part, fh)
            os.remove(job[6])
            total += n
            vlib.log("[tlc] %-22s %7d cases  %6.1fs" % (label, n, r.wall))
    return total


def program_jobs(ctx, families=None, with_random=True):
    tier, seed = ctx.tier, ctx.seed
    jobs = []
    for fam in (families or FAMILIES):
        jobs.append(("MC_Numscript", "MC_Numscript_%s_%s.cfg" % (fam, tier), seed, "Numscript/%s" % fam, TLC_TIMEOUT[tier], ()))
    if with_random:
        for k in range(R_CHUNKS[tier]):
            jobs.append(("MC_Numscript", "MC_Numscript_R_%s.cfg" % tier, seed * 1000 + k, "Numscript/R%d" % k, TLC_TIMEOUT[tier], ()))
    # longest first
    order = {"Numscript/E3": 0, "Numscript/E1": 1, "Numscript/E4": 2}
    jobs.sort(key=lambda j: order.get(j[3], 5))
    return jobs


def _spec_digest():
    h = hashlib.sha1()
    for f in sorted(os.listdir(vlib.SPEC)):
        if f.startswith(("Numscript", "MC_Numscript")):
            h.update(f.encode())
            h.update(open(os.path.join(vlib.SPEC, f), "rb").read())
    return h.hexdigest()[:16]


def _cached(ctx, key, produce, out_path):
    """Development aid, off unless VERIF_NUMSCRIPT_CACHE names a directory: re-use the case file TLC
    printed for the same spec/tier/seed (the sibling checks C22/C23/C26/C27 use the same stream).
    Registered runs do not set it: every run then performs its own TLC runs."""
    d = os.environ.get("VERIF_NUMSCRIPT_CACHE")
    if not d:
        return produce()
    os.makedirs(d, exist_ok=True)
    f, meta = os.path.join(d, key + ".ndjson"), os.path.join(d, key + ".json")
    if os.path.exists(f) and os.path.exists(meta):
        m = json.load(open(meta))
        shutil.copyfile(f, out_path)
        for run in m["tlc_runs"]:
            ctx.c.add("states", run["distinct"])
            ctx.c.add("transitions", run["generated"])
            ctx.c.cov.setdefault("tlc_runs", []).append(run)
        ctx.c.note("case file re-used from VERIF_NUMSCRIPT_CACHE (TLC runs of an earlier check of this session)")
        return m["n"]
    before = len(ctx.c.cov.get("tlc_runs", []))
    n = produce()
    shutil.copyfile(out_path, f)
    json.dump({"n": n, "tlc_runs": ctx.c.cov.get("tlc_runs", [])[before:]}, open(meta, "w"))
    return n


def generate_program_cases(ctx, families=None, with_random=True, name="cases.ndjson"):
    path = ctx.path(name)
    key = "prog-%s-%s-%d-%s-%s" % (_spec_digest(), ctx.tier, ctx.seed, "".join(families or FAMILIES), int(with_random))
    n = _cached(ctx, key, lambda: run_tlc_jobs(ctx, program_jobs(ctx, families, with_random), path), path)
    ctx.c.set("cases_generated", n)
    return path, n


ALLOT_PARTS = {"quick": [(1, 4)], "thorough": [(1, 7), (8, 9), (10, 10), (11, 11), (12, 12)]}


def generate_allot_cases(ctx, name="allot.ndjson"):
    tier = ctx.tier
    base = open(os.path.join(vlib.SPEC, "MC_NumscriptAllot_%s.cfg" % tier)).read()
    jobs = []
    for (lo, hi) in ALLOT_PARTS[tier]:
        cfg = "\n".join(l for l in base.splitlines() if not l.startswith(("CONSTANT DenLo", "CONSTANT DenHi")))
        cfg += "\nCONSTANT DenLo = %d\nCONSTANT DenHi = %d\n" % (lo, hi)
        fname = "MC_NumscriptAllot_gen_%d_%d.cfg" % (lo, hi)
        jobs.append(("MC_NumscriptAllot", fname, None, "Allot/den%d-%d" % (lo, hi), TLC_TIMEOUT[tier], ((fname, None, cfg),)))
    path = ctx.path(name)
    n = run_tlc_jobs(ctx, jobs, path)
    return path, n


# ------------------------------------------------------------------------------------------- harness

def run_harness(ctx, sub, in_path, tag, args=(), env=None, timeout=3000):
    out = ctx.path("%s.results.ndjson" % tag)
    summ = ctx.path("%s.summary.json" % tag)
    cmd = [ctx.bin, sub, "--in", in_path, "--out", out, "--summary", summ] + list(args)
    e = dict(os.environ)
    if env:
        e.update(env)
    rc, text = vlib.run(cmd, timeout=timeout, env=e)
    if rc != 0 or not os.path.exists(summ):
        raise vlib.Inconclusive("harness %s failed (rc=%s): %s" % (sub, rc, text[-2000:]))
    return json.load(open(summ)), out


def replay_obj(engine, entry):
    o = {"engine": engine, "case": entry.get("case"), "cmd": ".build/vh-numscript --replay <this file>"}
    if entry.get("variant") is not None:
        o["variant"] = entry["variant"]
    if entry.get("script"):
        o["script"] = entry["script"]
    return o


def reproduce(ctx, engine, entry):
    """Replay one disagreement through `vh-numscript --replay` before it is reported."""
    p = ctx.path("replay-probe.json")
    with open(p, "w") as fh:
        json.dump({"replay": replay_obj(engine, entry)}, fh)
    rc, text = vlib.run([ctx.bin, "--replay", p], timeout=120)
    return rc == 1, text


def report(ctx, engine, summary, prefixes, exclude=()):
    """Turn the signatures of the harness summary whose kind starts with one of `prefixes` into
    violations of the property of ctx.c (after reproducing each once). Returns their number."""
    c = ctx.c
    n = 0
    for e in summary.get("signatures", []):
        if not e["kind"].startswith(tuple(prefixes)) or e["kind"].startswith(tuple(exclude)):
            continue
        ok, text = reproduce(ctx, engine, e)
        if not ok:
            raise vlib.Inconclusive("disagreement %s did not reproduce on replay:\n%s" % (e["sig"], text[-1500:]))
        txt = "%s (%d case(s); first: case #%d%s) %s" % (e["sig"], e["count"], e["first_idx"],
                                                          (", rendering " + e["mode"]) if e.get("mode") else "", e["detail"])
        if e.get("script"):
            txt += " || script: " + e["script"].replace("\n", "\\n ")
        c.violation(e["sig"], txt, replay_obj(engine, e))
        n += 1
    return n


def other_kinds(summary, prefixes):
    """Disagreement kinds outside this property (attributed by the sibling checks)."""
    return {k: v for k, v in summary.get("disagreement_kinds", summary.get("finding_kinds", {})).items()
            if not k.startswith(tuple(prefixes))}


# ------------------------------------------------------------------------------------------- cases

def iter_cases(path):
    with open(path) as fh:
        for i, line in enumerate(fh):
            yield i, json.loads(line)


def pick_cases(path, pred, limit=1, stride=1):
    out = []
    for i, c in iter_cases(path):
        if i % stride == 0 and pred(c):
            out.append((i, c))
            if len(out) >= limit:
                break
    return out


def write_cases(path, cases):
    with open(path, "w") as fh:
        for c in cases:
            fh.write(json.dumps(c, sort_keys=True, separators=(",", ":")) + "\n")


def samples_from(path, pred, n=4):
    """Deterministic samples: the first n cases satisfying pred at indices spread over the file."""
    total = sum(1 for _ in open(path))
    step = max(1, total // (n * 3))
    out = []
    for i, c in iter_cases(path):
        if i % step == 0 and pred(c):
            out.append(c)
            if len(out) >= n:
                break
    return out


def negative_control(ctx, sub, cases, tag, want_prefix, args=(), env=None):
    """The comparator must flag the corrupted case(s); otherwise the check is broken (exit 2)."""
    p = ctx.path("%s.neg.ndjson" % tag)
    write_cases(p, cases)
    summ, _ = run_harness(ctx, sub, p, tag + ".neg", args=args, env=env)
    kinds = dict(summ.get("disagreement_kinds", {}))
    kinds.update(summ.get("finding_kinds", {}))
    hit = [k for k in kinds if k.startswith(want_prefix)]
    if not hit:
        raise vlib.Inconclusive("negative control %s: corrupted case not flagged (wanted %s*, got %s)" % (tag, want_prefix, kinds))
    return hit


def common_evidence(ctx, n_cases, summ):
    c = ctx.c
    c.set("traces_validated_against_impl", n_cases)
    cnt = summ["counts"]
    c.set("harness_counts", cnt)
    if "by_family" in summ:
        c.set("cases_by_family", summ["by_family"])
    c.assume(ASSUME_SCOPE)
    c.assume(ASSUME_SPEC)
    c.assume(ASSUME_STORE)
