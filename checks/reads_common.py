"""Shared pipeline of the READ-API checks C05, C17 (history half), C20, C21, C37 (Flow B + design-level theorems):

  1. go build harness/cmd/vh-reads against /repo's working tree
  2. TLC, specification level (must pass, else INCONCLUSIVE):
       MC_ReadsFold      design theorems of Reads over every history of the bounded ledger model (C05, C17)
       MC_ReadsPages     the two cursor state machines: every walk of next/previous shows the k-th chunk (C21)
       MC_ReadsLateral   the lateral push-down rule is safe for every filter AST of depth <= 3 (C20); with $in leaves
                         the unrestricted theorem is EXPECTED to fail (design-level finding, recorded as a note)
     plus a specification-level negative control (a mutated paginator must violate PageIsChunk)
  3. vh-reads: seeded random histories through the real HTTP API over pgmodel, reads issued during and after each
     history (PIT/OOT on, between, before, after recorded dates; both date modes; filters; page sizes 1..4 following
     next and previous; both orders; groupBy; query templates; 12 feature combinations) -> NDJSON traces
  4. TLC: TraceReads (report spec) validates every read against Reads from the observed state, in parallel chunks;
     failures carry the predicate name (hence the property) and the line
  5. every failing predicate is replayed once (vh-reads replay + TLC) before it may become a verdict
  6. negative control per property: one recorded output value is corrupted and TLC must reject it with the right predicate

The same cached pipeline also decides the point-in-time halves of C01 / C03 / C04 (Inv_C01_ConservationAt, Inv_C03_MovesAt,
Inv_C04_EffectiveAt): run_reads_stage(c, prop), called by checks/C01.py, C03.py, C04.py after their own pipeline.

Predicates named Inv_Cxx_* / Step_Cxx_* belong to property Cxx.  Class predicates (see spec/TraceReads.tla) carry the
signature of a known / suspected deviation: they are reported under that signature, never under the general one.
"""
import concurrent.futures as cf
import json
import os
import random
import re
import shutil
import subprocess
import sys
import time

sys.path.insert(0, os.path.join(os.path.dirname(os.path.abspath(__file__)), "..", "lib"))
sys.path.insert(0, os.path.dirname(os.path.abspath(__file__)))
import vlib
import ledger_common as L

TIERS = {
    # batches: (cases, scale)
    "quick": dict(fold_cfg="MC_ReadsFold_quick.cfg", batches=[(84, "1"), (16, "2p64"), (48, "2p53")], reads=34, tplruns=6, length=12,
                  chunks=8, tlc_timeout=900),
    "thorough": dict(fold_cfg="MC_ReadsFold_thorough.cfg", batches=[(1100, "1"), (200, "2p53"), (200, "1e30")], reads=34,
                     tplruns=6, length=12, chunks=15, tlc_timeout=5400),
}

# class predicate -> signature (the class IS the signature of the deviation; see spec/TraceReads.tla)
PRED_SIG = {
    "Step_C17_TxPitMixedFlags": "tx-pit-metadata/mixed-history-flags",
    "Step_C17_AcctPitAfterDelete": "account-pit-metadata/delete-dated-at-previous-write",
    "Step_C20_VolumesWindowMetaNoHistory": "volumes-window-metadata-filter/account-history-disabled",
    "Step_C20_LateralInArray": "lateral-push/partial-address-with-in-array",
    "Step_C20_AcctBalancePitNoEffective": "accounts-pit-balance-filter/effective-volumes-disabled",
    "Step_C37_ParamsPartialOverride": "template-params/request-params-erase-template-params",
    "Step_C37_RunExactAmounts": "template-run/amounts-above-2p53-rounded",
    "Step_C37_VarExactAmounts": "template-vars/numbers-above-2p53-rounded",
    "Step_C20_AcctBalanceNoAsset": "balance-filter-without-asset/multi-asset-500",
}

# predicates whose applicability guards vacuity, per property
MAIN_PREDS = {
    # the point-in-time halves of C01 / C03 / C04 (run_reads_stage: called by checks/C01.py, C03.py, C04.py)
    "C01": ["Inv_C01_ConservationAt"],
    "C03": ["Inv_C03_MovesAt"],
    "C04": ["Inv_C04_EffectiveAt"],
    "C05": ["Inv_C05_VolumesAt", "Inv_C05_AggAt", "Inv_C05_AccountsAt", "Inv_C05_TxsAt", "Inv_C05_Status"],
    "C17": ["Step_C17_TxMetaAt", "Step_C17_AcctMetaAt"],
    "C20": ["Step_C20_Select", "Step_C20_Count", "Step_C20_Status"],
    "C21": ["Step_C21_Pages", "Step_C21_Sorted", "Step_C21_Previous"],
    "C37": ["Step_C37_Template", "Step_C37_Cursor", "Step_C37_Status"],
}

SPEC_RUNS = {
    # label -> (module, cfg, properties it serves, expected violation or None)
    "fold": ("MC_ReadsFold", None, ("C05", "C17"), None),
    "pages": ("MC_ReadsPages", "MC_ReadsPages.cfg", ("C21",), None),
    # (MC_ReadsLateral_noin.cfg, the theorem over the menu without $in leaves, is implied by lateral_in: kept for reference)
    "lateral_in": ("MC_ReadsLateral", "MC_ReadsLateral_in.cfg", ("C20",), None),
    "lateral_in_neg": ("MC_ReadsLateral", "MC_ReadsLateral_in_neg.cfg", ("C20",), "PushSafe"),
    "pages_mutant": ("MC_ReadsPages", "MC_ReadsPages.cfg", ("C21",), "PageIsChunk|FollowIsChunks|NextIffMore"),
}

FAIL_RE = re.compile(r'<<"FAIL", "(\w+)", (\d+), (\d+)>>')
APP_RE = re.compile(r'<<"APP", "(\w+)", (\d+)>>')


def run_report(trace_path, timeout):
    r = vlib.tlc("TraceReads", "TraceReadsReport.cfg", workers=1, timeout=timeout, heap="3g",
                 extra_files=[("trace.ndjson", trace_path, None)])
    if r.error or r.rc != 0:
        raise vlib.Inconclusive("TLC report run of TraceReads failed: %s\n%s" % (r.error, r.out[-1800:]))
    fails = [(m.group(1), int(m.group(2)), int(m.group(3))) for m in FAIL_RE.finditer(r.out)]
    apps = [(m.group(1), int(m.group(2))) for m in APP_RE.finditer(r.out)]
    return r, fails, apps


def split_trace(path, parts):
    """Split the NDJSON trace into `parts` files at case boundaries (a case starts with a state line after reads)."""
    cases, cur, cur_case = [], [], None
    with open(path) as fh:
        for line in fh:
            m = re.match(r'\{"case":(\d+),', line)
            cid = int(m.group(1)) if m else None
            if cur and cid != cur_case:
                cases.append(cur)
                cur = []
            cur_case = cid
            cur.append(line)
    if cur:
        cases.append(cur)
    parts = max(1, min(parts, len(cases)))
    out = []
    per = (len(cases) + parts - 1) // parts
    for i in range(0, len(cases), per):
        p = "%s.part%d" % (path, len(out))
        with open(p, "w") as fh:
            for c in cases[i:i + per]:
                fh.writelines(c)
        out.append(p)
    return out


def spec_level(tier):
    """Specification-level TLC runs, in parallel. Returns {label: summary}; raises Inconclusive if one misbehaves."""
    cfg = TIERS[tier]
    reads_src = open(os.path.join(vlib.SPEC, "Reads.tla")).read()
    mutated = reads_src.replace("ELSE {k \\in keys : IF order = \"asc\" THEN k >= c.pid ELSE k <= c.pid}",
                                "ELSE {k \\in keys : IF order = \"asc\" THEN k > c.pid ELSE k < c.pid}")
    old_rule = reads_src.replace("CountInAsAddressFilter == FALSE", "CountInAsAddressFilter == TRUE")
    if mutated == reads_src or old_rule == reads_src:
        raise vlib.Inconclusive("specification-level negative control: mutation site not found in Reads.tla")

    def one(label):
        module, cfgname, _, _ = SPEC_RUNS[label]
        if label == "fold":
            cfgname = cfg["fold_cfg"]
        extra = []
        if label == "pages_mutant":
            extra = [("Reads.tla", None, mutated)]
        elif label == "lateral_in_neg":
            extra = [("Reads.tla", None, old_rule)]
        return label, vlib.tlc(module, cfgname, workers=2, timeout=cfg["tlc_timeout"], extra_files=extra, heap="2g")

    out = {}
    with cf.ThreadPoolExecutor(max_workers=len(SPEC_RUNS)) as ex:
        for label, r in ex.map(one, list(SPEC_RUNS)):
            expected = SPEC_RUNS[label][3]
            summ = r.summary()
            summ["label"] = label
            if expected is None:
                if not r.ok:
                    raise vlib.Inconclusive("specification-level TLC run %s failed (a spec problem, not a verdict about the code): %s %s\n%s"
                                            % (label, r.violations, r.error, r.out[-1500:]))
            else:
                names = [n for (_, n) in r.violations]
                if not (set(expected.split("|")) & set(names)) or r.error:
                    raise vlib.Inconclusive("specification-level negative control %s: TLC did not report %s (got %s %s)"
                                            % (label, expected, r.violations, r.error))
                summ["expected_violation"] = expected
                if label == "lateral_in_neg":
                    m = re.search(r"Invariant PushSafe is violated by the initial state:(.*?)(?:\n\n|Finished)", r.out, re.S)
                    summ["counterexample"] = re.sub(r"\s+", " ", m.group(1))[:900] if m else ""
            out[label] = summ
    return out


def build_pipeline(tier, seed):
    cfg = TIERS[tier]

    def build(d):
        t0 = time.time()
        exe = vlib.go_build("vh-reads")
        res = dict(tier=tier, seed=seed, batches=[], fails=[], apps={}, spec={}, trace_tlc=[], projection=[], inconclusive=[],
                   replayed={})
        # (2) specification level, concurrently with (3) trace generation
        with cf.ThreadPoolExecutor(max_workers=2) as ex:
            fut_spec = ex.submit(spec_level, tier)
            all_trace = os.path.join(d, "trace.ndjson")
            all_cases = []
            with open(all_trace, "w") as allf:
                base = 0
                for bi, (n, scale) in enumerate(cfg["batches"]):
                    tp = os.path.join(d, "b%d.ndjson" % bi)
                    cp = os.path.join(d, "b%d.cases.json" % bi)
                    p = L.sh([exe, "gen", "-seed", str(seed * 100 + bi), "-cases", str(n), "-len", str(cfg["length"]),
                              "-reads", str(cfg["reads"]), "-tplruns", str(cfg["tplruns"]), "-scale", scale,
                              "-workers", "12", "-out", tp, "-cases-out", cp], timeout=3000)
                    try:
                        summ = json.loads(p.stdout.strip().splitlines()[-1])
                    except Exception:
                        raise vlib.Inconclusive("vh-reads died: " + p.stdout[-1500:])
                    summ["scale"] = scale
                    res["batches"].append(summ)
                    for line in open(tp):
                        # renumber cases globally (the case number is the first field of every line)
                        m = re.match(r'\{"case":(\d+),', line)
                        allf.write('{"case":%d,' % (int(m.group(1)) + base) + line[m.end():])
                    cases = json.load(open(cp))
                    for c in cases:
                        c["case"] += base
                        c["batch"] = bi
                    all_cases.extend(cases)
                    for pf in summ.get("projection", []):
                        pf["case"] += base
                        pf["scale"] = scale
                        res["projection"].append(pf)
                    res["inconclusive"].extend(summ.get("inconclusive", []))
                    base += n
                    os.remove(tp)
            json.dump(all_cases, open(os.path.join(d, "cases.json"), "w"))
            vlib.log("[reads] traces generated at +%.0fs" % (time.time() - t0))
            if res["inconclusive"]:
                raise vlib.Inconclusive("harness could not run some cases: %s" % [x[:600] for x in res["inconclusive"][:3]])
            # (4) trace validation, in parallel chunks
            parts = split_trace(all_trace, cfg["chunks"])
            offs, off = [], 0
            for p in parts:
                offs.append(off)
                off += sum(1 for _ in open(p))
            with cf.ThreadPoolExecutor(max_workers=len(parts)) as ex2:
                outs = list(ex2.map(lambda p: run_report(p, cfg["tlc_timeout"]), parts))
            vlib.log("[reads] traces validated at +%.0fs" % (time.time() - t0))
            res["spec"] = fut_spec.result()
            vlib.log("[reads] specification-level runs done at +%.0fs" % (time.time() - t0))
        for (r, fails, apps), lo, p in zip(outs, offs, parts):
            res["trace_tlc"].append(r.summary())
            for (pred, ln, case) in fails:
                res["fails"].append([pred, ln + lo, case])
            for (pred, ln) in apps:
                res["apps"].setdefault(pred, []).append(ln + lo)
            os.remove(p)
        # (5) replay once: the first failing case of every failing predicate
        first = {}
        for pred, ln, case in res["fails"]:
            first.setdefault(pred, case)
        if first:
            by_case = {c["case"]: c for c in all_cases}
            rp = os.path.join(d, "replay.ndjson")
            with open(rp, "w") as fh:
                for case in sorted(set(first.values())):
                    cpath = os.path.join(d, "replay-case.json")
                    json.dump(by_case[case], open(cpath, "w"))
                    tp = os.path.join(d, "replay-one.ndjson")
                    p = L.sh([exe, "replay", "-case", cpath, "-out", tp], timeout=600)
                    if not os.path.exists(tp):
                        raise vlib.Inconclusive("replay of case %s died: %s" % (case, p.stdout[-800:]))
                    fh.write(open(tp).read())
                    os.remove(tp)
            _, rfails, _ = run_report(rp, cfg["tlc_timeout"])
            again = set((pred, case) for (pred, _, case) in rfails)
            for pred, case in first.items():
                res["replayed"][pred] = (pred, case) in again
            os.remove(rp)
        vlib.log("[reads] pipeline done at +%.0fs" % (time.time() - t0))
        json.dump(res, open(os.path.join(d, "result.json"), "w"))

    return cached("reads", tier, seed, build)


def reads_tree_hash():
    """Hash of what the reads pipeline depends on: /repo's working tree, the harness packages vh-reads is built from,
    the specifications it runs and this file (ledger_common.tree_hash hashes all of /verif, which makes the cache miss
    whenever an unrelated check is edited)."""
    import hashlib
    h = hashlib.sha256()
    repo = vlib.REPO
    h.update(L.sh(["git", "-C", repo, "rev-parse", "HEAD"]).stdout.encode())
    h.update(L.sh(["git", "-C", repo, "diff", "HEAD"]).stdout.encode())
    for f in sorted(x for x in L.sh(["git", "-C", repo, "ls-files", "--others", "--exclude-standard"]).stdout.split("\n") if x):
        h.update(f.encode())
        try:
            h.update(open(os.path.join(repo, f), "rb").read())
        except OSError:
            pass
    files = []
    narrow = os.environ.get("VERIF_READS_DEVHASH")
    for sub in ("harness/pgmodel", "harness/stack", "harness/drive", "harness/cmd/vh-reads"):
        base = os.path.join(vlib.VERIF, sub)
        for f in sorted(os.listdir(base)):
            if f.endswith(".go") and not (narrow and sub == "harness/drive" and f not in ("model.go", "env.go", "gen.go", "run.go", "reads.go")):
                files.append(os.path.join(base, f))
    files.append(os.path.join(vlib.HARNESS, "go.mod"))
    for f in sorted(os.listdir(vlib.SPEC)):
        if f.startswith(("Ledger.", "MC_Ledger.", "Reads.", "TraceReads", "MC_Reads")):
            files.append(os.path.join(vlib.SPEC, f))
    files += [os.path.abspath(__file__), os.path.join(vlib.VERIF, "lib", "vlib.py"), os.path.join(os.path.dirname(os.path.abspath(__file__)), "ledger_common.py")]
    for p in files:
        h.update(p.encode())
        h.update(open(p, "rb").read())
    return h.hexdigest()[:24]


def cached(name, tier, seed, build):
    """ledger_common.cached with the key restricted to the inputs of the reads pipeline."""
    orig = L.tree_hash
    L.tree_hash = reads_tree_hash
    try:
        return L.cached(name, tier, seed, build)
    finally:
        L.tree_hash = orig


def prop_of(pred):
    m = re.match(r"(?:Inv|Step)_(C\d\d)_", pred)
    return m.group(1) if m else None


def load_result(d):
    return json.load(open(os.path.join(d, "result.json")))


def case_lines(d, case):
    out = []
    with open(os.path.join(d, "trace.ndjson")) as fh:
        for i, line in enumerate(fh, 1):
            if line.startswith('{"case":%d,' % case):
                out.append((i, line))
    return out


def evaluate(c, prop, d):
    """Turn the cached pipeline result into evidence and verdicts for property `prop`."""
    res = load_result(d)
    cases = {x["case"]: x for x in json.load(open(os.path.join(d, "cases.json")))}
    for label, summ in res["spec"].items():
        if prop in SPEC_RUNS[label][2]:
            c.add("states", summ["distinct"])
            c.add("transitions", summ["generated"])
            c.cov.setdefault("tlc_runs", []).append(dict(summ))
    for t in res["trace_tlc"]:
        c.add("states", t["distinct"])
        c.add("transitions", t["generated"])
    c.cov.setdefault("tlc_runs", []).append(dict(label="TraceReads report spec over %d chunks" % len(res["trace_tlc"]),
                                                 distinct=sum(t["distinct"] for t in res["trace_tlc"]),
                                                 generated=sum(t["generated"] for t in res["trace_tlc"]),
                                                 wall_s=max(t["wall_s"] for t in res["trace_tlc"])))
    c.set("traces_validated_against_impl", sum(b["cases"] for b in res["batches"]))
    c.set("reads_validated", sum(b["reads"] for b in res["batches"]))
    c.set("http_requests_of_reads", sum(b["pages"] for b in res["batches"]))
    for k in ("filtered", "withPit", "multiPage", "templates", "orderDependent"):
        c.set("reads_" + k, sum(b.get(k, 0) for b in res["batches"]))
    by_res, by_status = {}, {}
    for b in res["batches"]:
        for k, v in b["byRes"].items():
            by_res[k] = by_res.get(k, 0) + v
        for k, v in b["byStatus"].items():
            by_status[k] = by_status.get(k, 0) + v
    c.set("reads_by_resource", by_res)
    c.set("reads_by_status", by_status)
    c.set("batches", [dict(cases=b["cases"], scale=b["scale"]) for b in res["batches"]])
    applied = {p: len(v) for p, v in res["apps"].items() if prop_of(p) == prop}
    c.set("predicate_applications", applied)
    # vacuity guard
    for p in MAIN_PREDS[prop]:
        if applied.get(p, 0) == 0:
            raise vlib.Inconclusive("vacuous run: predicate %s never applied to a read" % p)
    if prop == "C20":
        neg = res["spec"].get("lateral_in_neg", {})
        c.note("specification-level negative control (TLC, MC_ReadsLateral with the rule as it was before repository commit 55870c0, "
               "i.e. an $in leaf counted as an address filter): PushSafe refuted by %s" % neg.get("counterexample", "")[:500])
    if res["projection"]:
        c.note("projection failures (off-grid timestamp / amount not a multiple of the scale) in %d cases: %s"
               % (len(res["projection"]), res["projection"][:2]))
        if prop == "C05":
            for pf in res["projection"][:1]:
                c.violation("Projection:" + pf["msg"][:80], "a read returned a value outside the abstract domain: %s" % pf["msg"],
                            dict(kind="reads", case=cases.get(pf["case"], {})))
    mine, others = {}, {}
    for pred, ln, case in res["fails"]:
        if prop_of(pred) == prop:
            mine.setdefault(pred, (ln, case))
        else:
            others[pred] = others.get(pred, 0) + 1
    if others:
        c.note("predicates of other properties failed on this run (see their checks): %s" % others)
    counts = {}
    for pred, ln, case in res["fails"]:
        if prop_of(pred) == prop:
            counts[pred] = counts.get(pred, 0) + 1
    if counts:
        c.set("failing_predicates", counts)
    lines_cache = {}
    for pred, (ln, case) in sorted(mine.items(), key=lambda kv: kv[1]):
        if not res["replayed"].get(pred, False):
            raise vlib.Inconclusive("predicate %s failed on case %s but the failure did not reproduce on replay" % (pred, case))
        sig = PRED_SIG.get(pred, pred)
        if case not in lines_cache:
            lines_cache[case] = dict(case_lines(d, case))
        rd = json.loads(lines_cache[case][ln])
        cs = cases.get(case, {})
        text = ("predicate %s of spec/TraceReads.tla fails %d time(s); first: read %s of case %s (seed %s, scale %s, features %s): "
                "q=%s out=%s" % (pred, counts[pred], ln, case, cs.get("seed"), cs.get("scale"),
                                 json.dumps(cs.get("features"), sort_keys=True), compact_q(rd.get("q")), compact_out(rd.get("out"))))
        c.violation(sig, text, dict(kind="reads", predicate=pred, case=cs, read=rd,
                                    how="harness/cmd/vh-reads replay -case <this.replay.case> ; TLC spec/TraceReads.tla TraceReadsReport.cfg"))
    # samples
    n = 0
    with open(os.path.join(d, "trace.ndjson")) as fh:
        for line in fh:
            if '"kind":"read"' in line[:40]:
                o = json.loads(line)
                if (prop == "C37") == bool(o["q"].get("isTpl")) and (o["q"]["filter"]["op"] != "true" or prop not in ("C20",)):
                    c.sample(dict(q=compact_q(o["q"]), out=compact_out(o["out"])), limit=3)
                    n += 1
                    if n >= 3:
                        break
    c.assume("pgmodel (harness/pgmodel) stands in for PostgreSQL: it executes the repository's real SQL text and migration files "
             "with documented elementary semantics; a divergence from real Postgres is a threat to validity (DESIGN.md §10)")
    c.assume("text columns are ordered bytewise (C collation): ranks of addresses are computed that way by the projection")
    c.assume("the order of volumes rows within one account is not specified by the query: pages are compared as sets, and only "
             "their union when a page boundary separates rows of one account")
    return res


def render_node(n):
    if n["op"] == "true":
        return "*"
    if n["op"] in ("and", "or"):
        return "(" + (" %s " % n["op"]).join(render_node(a) for a in n["args"]) + ")"
    if n["op"] == "not":
        return "not " + render_node(n["args"][0])
    key = n["f"] + ("[%s]" % n["k"] if n["k"] else "")
    if n["op"] == "in":
        val = n["ss"]
    elif n["sg"]:
        val = ":".join(n["sg"])
    elif n["f"] in ("reverted",):
        val = n["b"]
    elif n["s"] != "":
        val = n["s"]
    else:
        val = n["n"]
    if n.get("var"):
        val = "${%s}" % n["var"]
    return "%s %s %s" % (key, n["op"], json.dumps(val))


def compact_q(q):
    if not isinstance(q, dict) or "filter" not in q:
        return "(state line: the predicate is an invariant of the observed state, not of one read)"
    o = {k: q[k] for k in ("res", "pit", "oot", "ins", "grp", "size", "order", "xvol", "xevol", "id", "addr") if q.get(k) not in (0, "", False, None)}
    o["filter"] = render_node(q["filter"])
    if q.get("isTpl"):
        t = q["tpl"]
        o["template"] = dict(res=t["res"], body=render_node(t["body"]),
                             vars={k: {x: v[x] for x in ("t", "def", "s", "n", "b") if v[x] not in (0, "", False)} for k, v in t["vars"].items()},
                             params={k: v for k, v in t["params"].items() if v not in (0, "", False) and not (k == "order" and not t["params"]["horder"])})
        o["call"] = dict(vars={k: {x: v[x] for x in ("s", "n", "b") if v[x] not in (0, "", False)} for k, v in q["call"]["vars"].items()},
                         params={k: v for k, v in q["call"]["params"].items() if v not in (0, "", False) and not (k == "order" and not q["call"]["params"]["horder"])})
    return json.dumps(o, sort_keys=True)


def compact_out(out):
    if not isinstance(out, dict) or "status" not in out:
        return ""
    o = dict(status=out["status"], pages=[p["items"] for p in out["pages"]][:4])
    if out.get("count", -1) >= 0:
        o["count"] = out["count"]
    if out.get("perr"):
        o["perr"] = out["perr"]
    return json.dumps(o, sort_keys=True)[:700]


# ----------------------------------------------------------------------------- negative controls

def _items_everywhere(out):
    """All lists that hold the items of a read (pages, full, previous probes)."""
    ls = [p["items"] for p in out["pages"]]
    ls.append(out["full"])
    for pr in out["prevs"]:
        ls.append(pr["items"])
        ls.append(pr["nitems"])
    return ls


def m_c05(rd):
    q, out = rd["q"], rd["out"]
    if q["res"] != "volumes" or out["status"] != "ok" or (q["pit"] == 0 and q["oot"] == 0):
        return False
    if not out["pages"] or not out["pages"][0]["items"]:
        return False
    key = (out["pages"][0]["items"][0]["a"], out["pages"][0]["items"][0]["as"])
    for ls in _items_everywhere(out):
        for it in ls:
            if (it["a"], it["as"]) == key:
                it["i"] += 1
                it["b"] += 1
    return True


def m_c17(rd):
    q, out = rd["q"], rd["out"]
    if q["res"] not in ("transactions", "accounts") or out["status"] != "ok" or q["pit"] == 0 or not out["full"]:
        return False
    key = "id" if q["res"] == "transactions" else "addr"
    k0 = out["full"][0][key]
    for ls in _items_everywhere(out):
        for it in ls:
            if it[key] == k0:
                it["meta"] = dict(it["meta"], k="corrupted")
    return True


def m_c20(rd):
    q, out = rd["q"], rd["out"]
    if q["res"] not in ("transactions", "accounts", "volumes", "logs") or out["status"] != "ok" or not out["full"]:
        return False
    # drop the last listed entity from the listing (every page it appears in) and from the count
    last = json.dumps(out["full"][-1], sort_keys=True)
    for ls in _items_everywhere(out):
        ls[:] = [it for it in ls if json.dumps(it, sort_keys=True) != last]
    if out["count"] > 0:
        out["count"] -= 1
    return True


def m_c21(rd):
    out = rd["out"]
    if out["status"] != "ok" or len(out["pages"]) < 2 or not out["pages"][1]["items"]:
        return False
    # the second page silently skips its first item (what an off-by-one cursor comparison would do)
    out["pages"][1]["items"] = out["pages"][1]["items"][1:]
    return True


def m_c37(rd):
    out = rd["out"]
    if out["status"] != "ok" or not out["pages"] or not out["pages"][0]["items"]:
        return False
    out["pages"][0]["items"] = out["pages"][0]["items"][1:]
    return True


def m_c01(rd):
    q, out = rd["q"], rd["out"]
    if q["res"] != "agg" or out["status"] != "ok" or not out["pages"] or not out["pages"][0]["items"]:
        return False
    out["pages"][0]["items"][0]["b"] += 1   # an unfiltered aggregated balance that is not zero
    return True


def _m_acct_vol(field):
    def mut(rd):
        q, out = rd["q"], rd["out"]
        if q["res"] != "accounts" or out["status"] != "ok" or q["pit"] == 0:
            return False
        target = None
        for it in out["full"]:
            if it[field]:
                target = it["addr"]
                break
        if target is None:
            return False
        for ls in _items_everywhere(out):
            for it in ls:
                if it["addr"] == target and it[field]:
                    it[field][0]["i"] += 1
        return True
    return mut


CONTROLS = {
    "C01": (("Inv_C01_ConservationAt",), "Inv_C01_ConservationAt", m_c01),
    "C03": (("Inv_C03_MovesAt",), "Inv_C03_MovesAt", _m_acct_vol("vol")),
    "C04": (("Inv_C04_EffectiveAt",), "Inv_C04_EffectiveAt", _m_acct_vol("evol")),
    # property -> (predicates one of which must reject, predicate that must have applied to the chosen read, mutator)
    "C05": (("Inv_C05_VolumesAt",), "Inv_C05_VolumesAt", m_c05),
    "C17": (("Step_C17_TxMetaAt", "Step_C17_AcctMetaAt"), None, m_c17),
    "C20": (("Step_C20_Select",), "Step_C20_Select", m_c20),
    "C21": (("Step_C21_Pages",), "Step_C21_Pages", m_c21),
    "C37": (("Step_C37_Template", "Step_C37_Cursor"), "Step_C37_Template", m_c37),
}


def negative_control(d, seed, prop):
    """Corrupt one recorded output value of an accepted read and require TLC to reject it with the right predicate."""
    expected, must_apply, mutate = CONTROLS[prop]
    res = load_result(d)
    bad_cases = set(c for (_, _, c) in res["fails"])
    apps = res["apps"]
    applies = set()
    for p in ([must_apply] if must_apply else list(expected)):
        applies.update(apps.get(p, []))
    rnd = random.Random(seed)
    # global line number -> case: read lazily, one pass
    by_case, order = {}, []
    with open(os.path.join(d, "trace.ndjson")) as fh:
        for i, line in enumerate(fh, 1):
            cid = int(re.match(r'\{"case":(\d+),', line).group(1))
            if cid not in by_case:
                by_case[cid] = []
                order.append(cid)
            by_case[cid].append((i, line))
    cands = [cid for cid in order if cid not in bad_cases]
    rnd.shuffle(cands)
    for cid in cands[:60]:
        lines = by_case[cid]
        idxs = [k for k, (gi, line) in enumerate(lines) if gi in applies]
        rnd.shuffle(idxs)
        for k in idxs:
            rd = json.loads(lines[k][1])
            if not mutate(rd):
                continue
            tmp = vlib.scratch("neg")
            try:
                p = os.path.join(tmp, "neg.ndjson")
                with open(p, "w") as fh:
                    for kk, (_, line) in enumerate(lines):
                        fh.write(json.dumps(rd, separators=(",", ":")) + "\n" if kk == k else line)
                r, fails, _ = run_report(p, 600)
                preds = set(f[0] for f in fails if f[1] == k + 1)
                if preds & set(expected):
                    return dict(case=cid, line=k + 1, rejected_by=sorted(preds), read=compact_q(rd.get("q")))
                raise vlib.Inconclusive("negative control of %s not rejected by %s (got %s): the binding is broken"
                                        % (prop, expected, sorted(preds)))
            finally:
                shutil.rmtree(tmp, ignore_errors=True)
    raise vlib.Inconclusive("negative control: no applicable read for %s" % prop)


def run_reads_check(c, prop):
    d = build_pipeline(c.tier, c.seed)
    evaluate(c, prop, d)
    c.set("negative_control", negative_control(d, c.seed, prop))
    return d


def run_reads_stage(c, prop, as_prop=None):
    """Point-in-time half of C01 / C03 / C04, decided on the reads the shared reads pipeline already issues (same cache):
    Inv_C01_ConservationAt / Inv_C03_MovesAt / Inv_C04_EffectiveAt of spec/TraceReads.tla.  Adds coverage counters prefixed
    reads_, reports a failing predicate as a violation whose signature is the predicate name, and ends with one
    corrupted-field control for that predicate.  To be called by checks/C01.py, C03.py, C04.py after their own pipeline."""
    # as_prop: the check `c` belongs to ANOTHER property (e.g. C02 judged on the predicates of C03: account volumes as of an
    # instant are the fold too); the predicates of `prop` are evaluated, coverage / violations go to `c`
    if as_prop is not None:
        c.set("reads_predicates_of", prop)
        c.assume("the point-in-time surface of %s is decided by the predicates of %s (%s) of spec/TraceReads.tla"
                 % (as_prop, prop, ", ".join(MAIN_PREDS[prop])))
    d = build_pipeline(c.tier, c.seed)
    res = load_result(d)
    cases = {x["case"]: x for x in json.load(open(os.path.join(d, "cases.json")))}
    for t in res["trace_tlc"]:
        c.add("states", t["distinct"])
        c.add("transitions", t["generated"])
    c.cov.setdefault("tlc_runs", []).append(dict(label="TraceReads report spec over %d chunks (reads as of an instant)" % len(res["trace_tlc"]),
                                                 distinct=sum(t["distinct"] for t in res["trace_tlc"]),
                                                 generated=sum(t["generated"] for t in res["trace_tlc"]),
                                                 wall_s=max(t["wall_s"] for t in res["trace_tlc"])))
    n_hist = sum(b["cases"] for b in res["batches"])
    c.set("reads_histories", n_hist)
    c.set("traces_validated_against_impl", int(c.cov.get("traces_validated_against_impl", 0)) + n_hist)
    c.set("reads_validated", sum(b["reads"] for b in res["batches"]))
    c.set("reads_withPit", sum(b.get("withPit", 0) for b in res["batches"]))
    applied = {p: len(v) for p, v in res["apps"].items() if prop_of(p) == prop}
    c.set("reads_predicate_applications", applied)
    for p in MAIN_PREDS[prop]:
        if applied.get(p, 0) == 0:
            raise vlib.Inconclusive("vacuous run: predicate %s never applied to a read" % p)
    counts, first = {}, {}
    for pred, ln, case in res["fails"]:
        if pred in MAIN_PREDS[prop]:
            counts[pred] = counts.get(pred, 0) + 1
            first.setdefault(pred, (ln, case))
    if counts:
        c.set("reads_failing_predicates", counts)
    for pred, (ln, case) in sorted(first.items()):
        if not res["replayed"].get(pred, False):
            raise vlib.Inconclusive("predicate %s failed on case %s but the failure did not reproduce on replay" % (pred, case))
        rd = json.loads(dict(case_lines(d, case))[ln])
        cs = cases.get(case, {})
        text = ("predicate %s of spec/TraceReads.tla fails %d time(s); first: read %s of case %s (seed %s, scale %s, features %s): "
                "q=%s out=%s" % (pred, counts[pred], ln, case, cs.get("seed"), cs.get("scale"),
                                 json.dumps(cs.get("features"), sort_keys=True), compact_q(rd.get("q")), compact_out(rd.get("out"))))
        c.violation(pred, text, dict(kind="reads", predicate=pred, case=cs, read=rd,
                                     how="harness/cmd/vh-reads replay -case <this.replay.case> ; TLC spec/TraceReads.tla TraceReadsReport.cfg"))
    c.set("reads_negative_control", negative_control(d, c.seed, prop))
    c.assume("reads as of an instant are issued at two points of each history (mid-history, end), at instants before / between / on / "
             "after the recorded dates; every third history contains a back-dated transaction touching one (account, asset) in three "
             "postings between two later-dated ones")
    return d
