#!/usr/bin/env python3
"""C26 - Machine and interpreter runtimes agree on the shared language.

Every TLC case (program + balances + outcome prescribed by spec/Numscript.tla) that both parsers
accept is run through MachineNumscriptRuntimeAdapter and DefaultInterpreterMachineAdapter with
the same variables and balances. The two real results are compared with each other (both fail, or
same non-zero postings in the same order, same transaction and account metadata) and the
interpreter is compared with the specified outcome modulo zero-amount postings.
The specification proves (TLC, ThmIdealOk/ThmIdealPostings) that its funding-level (machine) and
amount-level (interpreter-style) semantics coincide except on two syntactic/semantic classes,
which give the signatures of the corresponding disagreements: @kept-then-clause and
@zero-part-split.
"""
import copy
import numscript_common as nc
import vlib

PREFIX = ("interp-vs-machine/", "interp-vs-spec/")


def run(c):
    ctx = nc.Ctx(c)
    try:
        nc.build(ctx)
        path, n = nc.generate_program_cases(ctx)
        summ, _ = nc.run_harness(ctx, "cases", path, "c26")
        nc.common_evidence(ctx, n, summ)
        cnt = summ["counts"]
        c.set("common_subset_cases", cnt.get("common_subset", 0))
        c.set("common_subset_cases_with_postings", cnt.get("common_subset_nontrivial", 0))
        c.set("cases_in_class_kept_then_clause", cnt.get("class_kept_then_clause", 0))
        if cnt.get("common_subset", 0) < n // 2 or cnt.get("common_subset_nontrivial", 0) < n // 5:
            raise vlib.Inconclusive("vacuous for C26: %s" % cnt)
        c.assume("common subset = programs of the bounded grammar that the machine compiler accepts and the interpreter "
                 "parser accepts (no feature flags); programs rejected at compile time by the machine are outside it")
        for s in nc.samples_from(path, lambda k: k["exp"]["ok"] and len(k["exp"]["iposts"]) >= 2 and not k["exp"]["kbr"]):
            c.sample({"program": s["prog"], "balances": s["bal"], "non_zero_postings_both_runtimes": s["exp"]["iposts"]})
        nc.report(ctx, "cases", summ, PREFIX)
        others = nc.other_kinds(summ, PREFIX)
        if others:
            c.note("disagreements attributed to other properties (C22/C23/C27): %s" % others)

        # negative controls: (a) perturb the interpreter's first posting inside the harness, (b) corrupt the
        # prescribed outcome the interpreter is compared with
        picked = nc.pick_cases(path, lambda k: k["exp"]["ok"] and not k["exp"]["kbr"] and not k["exp"]["zsplit"]
                               and any(p["n"] > 0 for p in k["exp"]["posts"]), limit=1, stride=11)
        if not picked:
            raise vlib.Inconclusive("no case for the negative control")
        good = picked[0][1]
        bad1 = copy.deepcopy(good)
        bad1["inject"] = "interp-amount"
        nc.negative_control(ctx, "cases", [bad1], "c26a", "interp-vs-machine/postings")
        c.set("negative_control", "interpreter posting amount perturbed by 1 inside the comparator input: flagged")
    finally:
        ctx.close()


if __name__ == "__main__":
    vlib.main(run, "C26", "model_checking")
