"""Negative controls of the sequential-history checks: each mutator corrupts ONE recorded field of an
accepted case (a list of trace-line objects) and names the TLA+ predicate that must then reject it."""


def _l1(line):
    """Observed state of the ledger the line's request addressed (l1 in single-ledger histories)."""
    return line["st"].get(line.get("op", {}).get("l") or "l1") or line["st"].get("l1")


def _committed_lines(cl, kind=None):
    out = []
    for i, ln in enumerate(cl):
        if ln.get("reset"):
            continue
        if ln["res"]["ok"] and not ln["res"]["hit"] and not ln["op"]["dry"] and (kind is None or ln["op"]["k"] in kind):
            out.append(i)
    return out


def m_c01(cl):
    for ln in reversed(cl):
        st = _l1(ln)
        if st and st["vols"]:
            st["vols"][0]["i"] += 1
            st["vols"][0]["b"] += 1
            return True
    return False


def m_c02(cl):
    for ln in reversed(cl):
        st = _l1(ln)
        if st:
            for a in st["accts"]:
                if a["vol"]:
                    a["vol"][0]["o"] += 1
                    return True
    return False


def m_c03(cl):
    for ln in reversed(cl):
        st = _l1(ln)
        if st and st["txs"] and st["txs"][0]["pcv"]:
            st["txs"][0]["pcv"][0]["i"] += 1
            return True
    return False


def m_c04(cl):
    for ln in reversed(cl):
        st = _l1(ln)
        if st and st["flags"]["eff"] and st["txs"] and st["txs"][-1]["pcev"]:
            st["txs"][-1]["pcev"][0]["o"] += 1
            return True
    return False


def m_c07(cl):
    for i, ln in enumerate(cl):
        if ln.get("reset") or ln.get("aux") or ln.get("conc") or ln["res"]["ok"]:
            continue
        st = _l1(ln)
        if st and st["accts"]:
            for later in cl[i:]:
                s2 = _l1(later)
                if s2 and s2["accts"]:
                    s2["accts"][0]["meta"]["ghost"] = "1"
            return True
    return False


def m_c08(cl):
    idx = _committed_lines(cl)
    if not idx:
        return False
    i = idx[-1]
    for later in cl[i:]:
        st = _l1(later)
        if st and st["logs"]:
            st["logs"] = st["logs"][:-1] if later is cl[i] else st["logs"]
    return True


def m_c14(cl):
    for ln in reversed(cl):
        st = _l1(ln)
        if st and len(st["txs"]) >= 2:
            st["txs"][0]["ref"] = "dup"
            st["txs"][1]["ref"] = "dup"
            return True
    return False


def m_c15(cl):
    idx = _committed_lines(cl, ("revert",))
    for i in idx:
        st = _l1(cl[i])
        t = st["txs"][-1]
        if t["ps"]:
            t["ps"][0]["n"] += 1
            return True
    return False


def m_c16(cl):
    for ln in reversed(cl):
        st = _l1(ln)
        if st and len(st["logs"]) >= 2:
            st["logs"][-1]["id"] = st["logs"][0]["id"]
            return True
    return False


def m_c17(cl):
    idx = _committed_lines(cl, ("txmeta", "acmeta"))
    for i in idx:
        op = cl[i]["op"]
        if not op["meta"]:
            continue
        st = _l1(cl[i])
        k = sorted(op["meta"])[0]
        if op["k"] == "txmeta":
            for t in st["txs"]:
                if t["id"] == op["id"]:
                    t["meta"][k] = "corrupted"
                    return True
        else:
            for a in st["accts"]:
                if a["addr"] == op["addr"]:
                    a["meta"][k] = "corrupted"
                    return True
    return False


def m_c18(cl):
    idx = _committed_lines(cl, ("create",))
    for i in idx:
        st = _l1(cl[i])
        if st["accts"]:
            st["accts"][0]["first"] += 1
            return True
    return False


def m_c25(cl):
    idx = _committed_lines(cl, ("create",))
    for i in idx:
        st = _l1(cl[i])
        t = st["txs"][-1]
        if len(t["ps"]) >= 2:
            t["ps"][0], t["ps"][1] = t["ps"][1], t["ps"][0]
            if t["ps"][0] != t["ps"][1]:
                return True
            t["ps"][0]["n"] += 1
            return True
        if t["ps"]:
            t["ps"][0]["n"] += 1
            return True
    return False


def m_c28(cl):
    for ln in reversed(cl):
        st = _l1(ln)
        if st and st["txs"]:
            st["txs"][-1]["wf"] = False
            return True
    return False


def m_c31(cl):
    idx = _committed_lines(cl)
    for i in idx:
        if cl[i]["ev"]:
            cl[i]["ev"] = []
            return True
    return False


def m_c35(cl):
    for ln in reversed(cl):
        st = _l1(ln)
        if st and st["logs"]:
            st["logs"][-1]["hashed"] = not st["logs"][-1]["hashed"]
            return True
    return False


def m_c13(cl):
    for ln in cl:
        if not ln.get("reset") and ln["res"]["hit"]:
            ln["res"]["hit"] = False
            return True
    for ln in cl:
        if not ln.get("reset") and ln["res"]["err"] == "ik_invalid":
            ln["res"]["err"] = "insufficient"
            return True
    return False


def m_c19(cl):
    for ln in cl:
        if ln.get("reset") or ln.get("aux") or ln.get("conc"):
            continue
        for g, st in ln["st"].items():
            if g != ln["op"]["l"] and st["accts"]:
                st["accts"][0]["meta"]["leak"] = "1"
                return True
    return False


def m_c11(cl):
    for ln in cl:
        if not ln.get("reset") and ln["op"]["k"] == "import" and ln["res"]["ok"]:
            st = ln["st"].get(ln["op"]["l"])
            if st and st["accts"]:
                st["accts"][0]["first"] += 1
                return True
    return False


def m_c12(cl):
    for ln in cl:
        if not ln.get("reset") and ln["op"]["k"] == "import" and not ln["res"]["ok"]:
            ln["res"]["ok"], ln["res"]["err"] = True, ""
            return True
    return False


def m_c34(cl):
    """A block that does not start where the previous one ended."""
    for ln in reversed(cl):
        for g, bs in (ln.get("blk") or {}).items():
            if bs:
                bs[-1]["from"] += 1
                return True
    return False


def m_c06(cl):
    """A request refused for insufficient funds is recorded as accepted."""
    for ln in cl:
        if not ln.get("reset") and not ln.get("aux") and not ln.get("conc") and ln["op"]["k"] == "create" \
                and ln["res"]["err"] == "insufficient":
            ln["res"]["ok"], ln["res"]["err"] = True, ""
            return True
    return False


def m_c09(cl):
    """The last hashed log's stored hash is reproduced from no predecessor."""
    for ln in reversed(cl):
        st = _l1(ln)
        if st and st.get("chain") and st["flags"]["hash"] and st["logs"]:
            st["chain"][-1] = -1
            return True
    return False


CONTROLS = {
    "C06": ("Step_C25_Funds", m_c06),
    "C09": ("Inv_C09_HashChain", m_c09),
    "C34": ("Inv_C34_BlockChain", m_c34),
    "C11": ("Step_C11_ImportFaithful", m_c11),
    "C12": ("Step_C12_ImportOutcome", m_c12),
    "C19": ("Step_C19_Frame", m_c19),
    "C01": ("Inv_C01_Conservation", m_c01),
    "C02": ("Inv_C02_VolumesAreFold", m_c02),
    "C03": ("Inv_C03_PostCommitVolumes", m_c03),
    "C04": ("Inv_C04_EffectiveVolumes", m_c04),
    "C07": ("Step_C07_NoTrace", m_c07),
    "C08": ("Step_C08_OneLog", m_c08),
    "C13": ("Step_C13_Idempotency", m_c13),
    "C14": ("Inv_C14_UniqueRefs", m_c14),
    "C15": ("Step_C15_Reverted", m_c15),
    "C16": ("Inv_C16_Ids", m_c16),
    "C17": ("Step_C17_Metadata", m_c17),
    "C18": ("Step_C18_Accounts", m_c18),
    "C25": ("Step_C25_Recorded", m_c25),
    "C28": ("Inv_C28_WellFormed", m_c28),
    "C31": ("Step_C31_Events", m_c31),
    "C35": ("Inv_C35_Hashes", m_c35),
}
