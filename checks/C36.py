#!/usr/bin/env python3
"""Check of property C36 (amounts are exact at any magnitude): DESIGN.md §6 C36, §2.5.

  1. sequential pipeline: the seeded histories at scales 2^53+1 .. 10^30 through the v2 postings and inline-
     literal script paths (projection = exact division by the scale; TraceLedger validates the projected
     trace); projection failures are attributed to this property;
  2. the entry points the property names that the generator does not reach: the same abstract history is
     executed through v2 script variables (strings, {asset,amount:"..."}, {asset,amount:<JSON number>}), v1
     postings, v1 scripts, v1 script variables (strings and {asset, amount:<JSON number>} objects), bulk
     elements (postings and script variables) at every scale in {1, 2^53-1, 2^53+1, 2^63-1, 2^63+1, 2^64-1,
     2^64+1, 10^30} (amount 0 is part of every history), with the v1 views, balance[asset] filters and
     aggregated sums read back after every step; spec/TraceAmounts.tla (TraceLedger + the read predicates)
     validates every projected trace, and the projected trace must equal the one at scale 1;
  3. single-amount probes: one transaction of amount B through every entry point, recorded amount == B;
  4. negative controls: a v1 balance off by one / a filter result short of one account (TLC must reject).
"""
import os
import sys

sys.path.insert(0, os.path.dirname(os.path.abspath(__file__)))
sys.path.insert(0, os.path.join(os.path.dirname(os.path.abspath(__file__)), "..", "lib"))
import api_common as A
import ledger_common as L
import vlib

PROP = "C36"


def run(c):
    d, ad = A.together(lambda: L.build_pipeline(c.tier, c.seed), lambda: A.amounts_pipeline(c.tier, c.seed))
    L.evaluate(c, PROP, d)
    res, cases, by_case, accepted, bad = A.eval_amounts(c, ad)
    tp = os.path.join(ad, "trace.ndjson")
    bad = bad | set(case for _, _, case in res["fails"])
    controls = [A.trace_negative_control(tp, bad, c.seed, "Inv_C36_V1Balances", A.m_amount_read, "TraceAmounts", "TraceAmountsReport.cfg"),
                A.trace_negative_control(tp, bad, c.seed + 1, "Inv_C36_BalanceFilters", A.m_filter_read, "TraceAmounts", "TraceAmountsReport.cfg")]
    c.set("negative_control", controls)
    c.assume("scale abstraction (DESIGN §2.5): every ledger operation is additive in the amounts, so one TLC-validated abstract history is valid at every "
             "scale B; a lossy path breaks divisibility by B or changes the quotient")
    c.assume("v1 `balance` query parameter is parsed with strconv.ParseInt (64 bit): thresholds >= 2^63 are rejected with 400, not answered inexactly; "
             "the v1 filter is therefore not part of the read-backs")


vlib.main(run, PROP, "model_checking")
