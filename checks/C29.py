#!/usr/bin/env python3
"""C29 -- Schema enforcement and chart semantics (write path).

Spec: spec/Schema.tla over spec/Chart.tla.  TLC checks on the bounded model, in every reachable
observable state and for every request of the menus: NoEffectOnReject, OneLogPerWrite,
DefaultsOnlyAtCreation, NoAccountDeleted, StrictRequiresVersion, StrictChartEnforced,
StrictHasNoDeviation, AuditAcceptsAll, AuditRelaxesStrict; and prints one behaviour per transition
with the outcome and the observable post-state prescribed after every request.  `vh-schema` replays
every behaviour through the real HTTP API (router, controllers, storage) over pgmodel, in the
enforcement mode of the behaviour, and compares outcome class, accounts + metadata, number of logs,
number of transactions and schema versions after EVERY request.

Two deviations the code once exhibited (repaired in /repo by b6f2f6a and 054dd07) stay in the model
as a second, never-followed outcome of the request: behaviours only continue through the outcome the
property prescribes, and an implementation that produces the deviation outcome again is reported as a
violation of C29 under the deviation's own signature:
  deviation:D1:audit-rejects-unknown-schema-version:{tx,meta}
  deviation:D2:audit-rejects-plain-postings-on-templated-schema
Ids must be distinct; gaps are allowed (C16): a strict-mode rejection burns a transaction id.

usage: python3 checks/C29.py quick|thorough        (VERIF_SEED seeds the sampled parts)
"""
import json
import os
import shutil
import sys
import time

sys.path.insert(0, os.path.join(os.path.dirname(os.path.abspath(__file__)), "..", "lib"))
sys.path.insert(0, os.path.dirname(os.path.abspath(__file__)))

import vlib                 # noqa: E402
import schema_common as sc  # noqa: E402

PROP = "C29"


def run(c):
    binary = vlib.go_build("vh-schema")
    work = vlib.scratch("c29")
    try:
        t0 = time.time()
        groups, neg = sc.run_tlc_plan(c.tier, c.seed, check=c)
        c.set("tlc_wall_s", round(time.time() - t0, 1))
        c.set("theorems_checked", sc.THEOREMS)

        # negative control of the theorems (and design-level record of D1/D2): the audit theorem stated
        # over the outcomes the code was read to produce must be violated
        negv = [n for k, n in neg.violations if k == "invariant"]
        c.cov.setdefault("tlc_runs", []).append(dict(label="neg(AuditAcceptsAll_AsRead must fail)", **neg.summary()))
        if "AuditAcceptsAll_AsRead" not in negv:
            raise vlib.Inconclusive("theorem negative control: TLC did not report AuditAcceptsAll_AsRead violated: %s %s" % (
                neg.violations, neg.out[-1500:]))
        c.set("theorem_negative_control", "AuditAcceptsAll over as-read outcomes violated by TLC, as expected (D1/D2)")

        case_file = os.path.join(work, "cases.ndjson")
        n_cases = sc.write_case_file(case_file, groups)
        if os.environ.get("VERIF_KEEP_CASES"):      # debugging / mutation testing: keep a copy of the case file
            shutil.copyfile(case_file, os.environ["VERIF_KEEP_CASES"])
        by_label, by_id = {}, {}
        for h, cases in groups:
            by_label[h["label"]] = by_label.get(h["label"], 0) + len(cases)
            for cs in cases:
                by_id[cs["id"]] = cs
        c.set("cases_by_run", by_label)
        if n_cases == 0:
            raise vlib.Inconclusive("TLC emitted no behaviour")

        t1 = time.time()
        summary, results = sc.run_harness(binary, case_file, timeout=2400)
        c.set("harness_wall_s", round(time.time() - t1, 1))
        c.set("traces_validated_against_impl", summary["cases"])
        c.set("requests_replayed", summary["steps_replayed"])
        c.set("requests_in_behaviours", summary["steps_total"])
        c.set("rejections_observed", summary["rejections_observed"])
        c.set("behaviours_by_mode", summary["by_mode"])
        c.set("behaviours_left_to_sibling_outcome", summary["diverged_to_sibling"])
        c.set("hard_mismatches_by_sig", summary["by_sig"])
        c.set("deviations_by_sig", summary["deviations_by_sig"])
        if summary["cases"] != n_cases:
            raise vlib.Inconclusive("harness replayed %d of %d behaviours" % (summary["cases"], n_cases))
        # vacuity guards
        if summary["rejections_observed"] < 50 or min(summary["by_mode"].get("strict", 0), summary["by_mode"].get("audit", 0)) < 50:
            raise vlib.Inconclusive("too few rejections / behaviours per mode: %s" % summary)
        n_defaults = sum(1 for h, cases in groups for cs in cases
                         if any(v != "_" for a in cs["steps"][-1]["exp"]["accts"] for k, v in a["kv"].items() if k in ("k1", "k2")))
        c.set("behaviours_ending_with_default_metadata_present", n_defaults)
        if n_defaults < 20:
            raise vlib.Inconclusive("only %d behaviours exercise default metadata" % n_defaults)

        # violations: one per signature (first example), deviations and hard mismatches alike
        seen = set()
        for r in results:
            for d in r["disagreements"]:
                if d["sig"] in seen:
                    continue
                seen.add(d["sig"])
                cs = by_id[r["id"]]
                text = "%s [behaviour %s, mode %s, step %d] %s" % (d["sig"], r["id"], r["mode"], d["step"], d["detail"])
                c.violation(d["sig"], text, dict(engine="vh-schema", case=sc.self_contained(cs), disagreement=d,
                                                 trace=r.get("trace")))
        for h, cases in groups:
            if cases:
                cs = cases[len(cases) // 2]
                c.sample(dict(id=cs["id"], mode=cs["mode"],
                              steps=[dict(req=s["req"], dev=s["dev"], ok=s["exp"]["ok"], err=s["exp"]["err"],
                                          accts=s["exp"]["accts"], nlogs=s["exp"]["nlogs"]) for s in cs["steps"]]), limit=4)

        # negative controls of the comparator
        negs = sc.negative_controls(groups)
        if len(negs) < 7:
            raise vlib.Inconclusive("could not build the negative controls (%d)" % len(negs))
        neg_file = os.path.join(work, "neg.ndjson")
        sc.write_case_file(neg_file, [(h, [cs]) for _, h, cs, _ in negs])
        nsum, nres = sc.run_harness(binary, neg_file, timeout=300)
        flagged = {r["id"]: {d["sig"] for d in r["disagreements"]} for r in nres}
        report = []
        for name, h, cs, want in negs:
            got = flagged.get(cs["id"], set())
            ok = any(s.startswith(want) for s in got)
            report.append(dict(control=name, expected_sig=want, flagged=ok))
            if not ok:
                raise vlib.Inconclusive("negative control %s not flagged (wanted %s, got %s)" % (name, want, sorted(got)))
        c.set("negative_controls", report)
        c.assume("pgmodel stands in for PostgreSQL (real SQL text, migrations, sequences with non-transactional nextval)")
        c.assume("requests are issued sequentially; the enforcement mode is fixed per behaviour (controller option)")
    finally:
        shutil.rmtree(work, ignore_errors=True)


if __name__ == "__main__":
    vlib.main(run, PROP, "model_checking")
