"""Shared pipeline of the concurrency checks (C06, C09, C13, C14, C15, C16):

  1. TLC on the statement-level model LedgerPG (MC_LedgerPG_*.cfg): the property invariants hold for every
     interleaving of the bounded scenarios; each mechanism has a negative-control cfg (mechanism switched
     off) for which TLC MUST produce a counterexample; the two design-level known findings of C16 have
     cfgs that MUST be violated as well (documenting the finding at the design level).
  2. vh-ledger conc: the real HTTP API / controller / storage code over pgmodel, N concurrent requests per
     scenario, every statement-level schedule with at most K preemptions (depth-first, stateless),
     each schedule a fresh clone of the prefix state; outcomes, commit ranks, final state, hash chain.
  3. TLC trace validation (TraceLedger, concurrent lines): there must be a serial order agreeing with the
     observed commit order in which Ledger!Apply yields the observed outcomes and final state; ids must
     increase in commit order; the hash chain must be linear.
"""
import json
import os
import random
import shutil
import sys

sys.path.insert(0, os.path.join(os.path.dirname(os.path.abspath(__file__)), "..", "lib"))
import vlib
import ledger_common as L

# cfg -> expectation: None = must hold; "Inv" = TLC must report a violation of that invariant
PG_CFGS = {
    "c06_two": None, "c06_three": None, "c06_cross": None, "c06_NEG_nolock": "NoOverdraft",
    "c13_key": None, "c13_key3": None, "c13_other": None, "c13_NEG_norecheck": "NoBusinessErrorOnDuplicate",
    "c16_shared": None, "c16_disjoint_sync": None,
    "c16_FINDING_txid": "TxIdCommitOrder", "c16_FINDING_logid": "LogIdCommitOrder",
    "c09_NEG_noadv": "LinearChain",
    # design of the async block builder (spec/AsyncBlocks.tla); the FINDING cfgs document C34's known finding
    "AsyncBlocks_ordered": None, "AsyncBlocks_unordered_chain": None,
    "AsyncBlocks_FINDING_unordered": "DigestCovers", "AsyncBlocks_FINDING_quiescence": "CoverAtQuiescence",
    # import vs first writes (spec/ImportLock.tla); the NEG cfgs are the two ways the exclusion can be lost
    "ImportLock_ok": None, "ImportLock_ok_tail": None, "ImportLock_NEG_keys": "Serial", "ImportLock_NEG_noflip": "Serial",
}
PG_BY_PROP = {
    "C06": ["c06_two", "c06_three", "c06_cross", "c06_NEG_nolock"],
    "C13": ["c13_key", "c13_key3", "c13_other", "c13_NEG_norecheck"],
    "C14": ["c13_other"],
    "C15": ["c06_two"],
    "C16": ["c16_shared", "c16_disjoint_sync", "c16_FINDING_txid", "c16_FINDING_logid"],
    "C09": ["c16_shared", "c16_disjoint_sync", "c09_NEG_noadv"],
    "C12": ["ImportLock_ok", "ImportLock_ok_tail", "ImportLock_NEG_keys", "ImportLock_NEG_noflip"],
    "C34": ["AsyncBlocks_ordered", "AsyncBlocks_unordered_chain", "AsyncBlocks_FINDING_unordered", "AsyncBlocks_FINDING_quiescence"],
}
# predicates whose known-finding signature carries the scenario family
FAMILY_SIG = ("StepC_C16_TxIdCommitOrder", "StepC_C16_LogIdCommitOrder", "Inv_C34_BlockDigest")


def _tlc_design(n):
    if n.startswith("AsyncBlocks_"):
        return vlib.tlc("AsyncBlocks", n + ".cfg", workers=2, timeout=900)
    if n.startswith("ImportLock_"):
        return vlib.tlc("ImportLock", n + ".cfg", workers=2, timeout=600)
    return vlib.tlc("MC_LedgerPG", "MC_LedgerPG_%s.cfg" % n, workers=2, timeout=600)

TIERS = {
    "quick": dict(runs=[dict(seed_off=0, preempt=2, max_runs=150, scale="1")], parts=4),
    "thorough": dict(runs=[dict(seed_off=0, preempt=3, max_runs=2500, scale="1"),
                           dict(seed_off=1, preempt=2, max_runs=400, scale="2p64"),
                           dict(seed_off=2, preempt=2, max_runs=400, scale="1e30")], parts=14),
}


FAMILY_OF = {"C06": "overdraft/", "C13": "ik/", "C14": "ref/", "C15": "revert/", "C16": "ids/", "C09": "ids/", "C12": "import/",
             "C34": "blocks/"}


def build_conc(tier, seed, prop):
    """Targeted pipeline of one property: only its LedgerPG cfgs and its scenario families."""
    cfg = TIERS[tier]
    # the cache entry is per scenario family: it carries the design cfgs of every property using that family
    my_cfgs = {n: PG_CFGS[n] for p, fam in sorted(FAMILY_OF.items()) if fam == FAMILY_OF[prop] for n in PG_BY_PROP[p]}

    def build(d):
        exe = vlib.go_build("vh-ledger")
        res = dict(tier=tier, seed=seed, pg={}, runs=[], fails=[], trace_tlc=[], inconclusive=[], projection=[])
        # (1) design level
        import concurrent.futures as cf0
        with cf0.ThreadPoolExecutor(max_workers=7) as ex0:
            pg_runs = dict(zip(my_cfgs, ex0.map(_tlc_design, my_cfgs)))
        for name, expect in my_cfgs.items():
            r = pg_runs[name]
            s = r.summary()
            s["expect"] = expect
            res["pg"][name] = s
            viol = [v[1] for v in r.violations]
            if expect is None:
                if not r.ok:
                    raise vlib.Inconclusive("LedgerPG cfg %s: unexpected TLC result %s %s (specification problem, not a verdict about the code)\n%s"
                                            % (name, r.violations, r.error, r.out[-1200:]))
            else:
                if expect not in viol:
                    raise vlib.Inconclusive("LedgerPG cfg %s must violate %s (negative control / documented finding) but TLC reported %s %s"
                                            % (name, expect, r.violations, r.error))
        # (2) real code under explored schedules
        trace = os.path.join(d, "trace.ndjson")
        cases = []
        base = 0
        with open(trace, "w") as allf:
            for ri, run in enumerate(cfg["runs"]):
                tp = os.path.join(d, "r%d.ndjson" % ri)
                cp = os.path.join(d, "r%d.cases.json" % ri)
                p = L.sh([exe, "conc", "-seed", str(seed + run["seed_off"]), "-preempt", str(run["preempt"]),
                          "-max-runs", str(run["max_runs"]), "-scale", run["scale"], "-family", FAMILY_OF[prop],
                          "-out", tp, "-cases-out", cp], timeout=1500 if tier == "quick" else 7200)
                try:
                    summ = json.loads(p.stdout.strip().splitlines()[-1])
                except Exception:
                    raise vlib.Inconclusive("vh-ledger conc died: " + p.stdout[-1500:])
                summ.update(run)
                res["runs"].append(summ)
                res["inconclusive"].extend(summ.get("inconclusive", []))
                for pf in summ.get("projection", []):
                    pf["case"] += base
                    res["projection"].append(pf)
                cs = json.load(open(cp))
                for line in open(tp):
                    o = json.loads(line)
                    o["case"] += base
                    allf.write(json.dumps(o, separators=(",", ":")) + "\n")
                for c in cs:
                    c["case"] += base
                    c["run"] = ri
                cases.extend(cs)
                base += len(cs)
                os.remove(tp)
        json.dump(cases, open(os.path.join(d, "cases.json"), "w"))
        if res["inconclusive"]:
            raise vlib.Inconclusive("some concurrent scenarios could not be explored: %s" % res["inconclusive"][:3])
        # (3) trace validation
        parts = L.split_trace(trace, cfg["parts"])
        import concurrent.futures as cf
        offs, off = [], 0
        for p in parts:
            offs.append(off)
            off += sum(1 for _ in open(p))
        with cf.ThreadPoolExecutor(max_workers=len(parts)) as ex:
            outs = list(ex.map(lambda p: L.run_report(p, 1500 if tier == "quick" else 7000), parts))
        for (r, fails), lo, p in zip(outs, offs, parts):
            res["trace_tlc"].append(r.summary())
            for (pred, ln, case) in fails:
                res["fails"].append([pred, ln + lo, case])
            os.remove(p)
        json.dump(res, open(os.path.join(d, "result.json"), "w"))

    return L.cached("ledgerconc-" + FAMILY_OF[prop].strip("/"), tier, seed, build)


def evaluate_conc(c, prop, d):
    res = json.load(open(os.path.join(d, "result.json")))
    cases = {x["case"]: x for x in json.load(open(os.path.join(d, "cases.json")))}
    for name in PG_BY_PROP.get(prop, []):
        s = res["pg"][name]
        c.add("states", s["distinct"])
        c.add("transitions", s["generated"])
        c.cov.setdefault("tlc_runs", []).append(dict(label="LedgerPG %s (expect %s)" % (name, s["expect"] or "all invariants hold"),
                                                     generated=s["generated"], distinct=s["distinct"], violations=s["violations"]))
    for t in res["trace_tlc"]:
        c.add("states", t["distinct"])
        c.add("transitions", t["generated"])
    lines = None
    fam_sched = {}
    nsched = 0
    for r in res["runs"]:
        for fam, n in r["per_family"].items():
            if vprop(fam) == prop or prop == "C09":
                fam_sched[fam] = fam_sched.get(fam, 0) + n
                nsched += n
    c.set("schedules_explored", nsched)
    c.set("schedules_per_family", fam_sched)
    c.set("exploration", [dict(preempt=r["preempt"], max_runs=r["max_runs"], scale=r["scale"], cases=r["cases"],
                               exhaustive_cases=r["exhaustive_cases"], max_decisions=r["max_decisions"]) for r in res["runs"]])
    c.add("traces_validated_against_impl", nsched)
    mine = {}
    others = {}
    for pred, ln, case in res["fails"]:
        p = L.prop_of(pred.replace("StepC_", "Step_"))
        if p != prop:
            others[pred] = others.get(pred, 0) + 1
            continue
        fam = cases.get(case, {}).get("family", "?")
        sig = "%s/%s" % (pred, fam) if pred in FAMILY_SIG else pred
        if sig not in mine:
            if lines is None:
                lines = open(os.path.join(d, "trace.ndjson")).read().splitlines()
            o = json.loads(lines[ln - 1])
            mine[sig] = (pred, case, ln, o.get("sched", ""), o.get("ress"), o.get("cseq"))
    if others:
        c.note("predicates of other properties failed on this run (see their checks): %s" % others)
    for sig, (pred, case, ln, sched, ress, cseq) in sorted(mine.items()):
        cs = dict(cases.get(case, {}))
        cs["schedule"] = sched.split(",") if sched else []
        text = ("predicate %s of spec/TraceLedger.tla fails for scenario %s under schedule %s: outcomes %s, commit ranks %s"
                % (pred, cs.get("family"), sched, json.dumps(ress)[:300], cseq))
        c.violation(sig, text, dict(kind="ledgerconc", predicate=pred, case=cs))
    if lines is None:
        lines = open(os.path.join(d, "trace.ndjson")).read().splitlines()
    shown = 0
    for raw in lines:
        o = json.loads(raw)
        if o.get("conc") and vprop(o.get("fam", "")) == prop and shown < 2:
            c.sample(dict(family=o["fam"], schedule=o["sched"], outcomes=[(r["ok"], r["err"], r["hit"], r["id"]) for r in o["ress"]], commit_ranks=o["cseq"]))
            shown += 1
    c.assume("interleavings are explored at SQL-statement granularity (statements are atomic in pgmodel as in Postgres); "
             "a blocked statement is re-executed from scratch once the lock holder ends (a behaviour Postgres can also produce); "
             "schedules with more than K preemptions are not explored")
    return res


def vprop(fam):
    for pre, p in (("overdraft", "C06"), ("ik/", "C13"), ("ref/", "C14"), ("revert/", "C15"), ("ids/", "C16"), ("import/", "C12"), ("blocks/", "C34")):
        if fam.startswith(pre):
            return p
    return ""


def negative_control_conc(d, seed, prop, pred_expected, mutate):
    """Corrupt one concurrent line of a case family owned by prop; TLC must reject with pred_expected."""
    lines = [json.loads(x) for x in open(os.path.join(d, "trace.ndjson"))]
    by_case = {}
    for ln in lines:
        by_case.setdefault(ln["case"], []).append(ln)
    rnd = random.Random(seed)
    cands = sorted(by_case)
    rnd.shuffle(cands)
    for cnum in cands:
        cl = by_case[cnum]
        concs = [x for x in cl if x.get("conc")]
        if not concs or (prop != "C09" and vprop(concs[0].get("fam", "")) != prop):
            continue
        keep = [json.loads(json.dumps(x)) for x in cl if not x.get("conc")]
        target = json.loads(json.dumps(rnd.choice(concs)))
        if not mutate(target):
            continue
        tmp = vlib.scratch("negc")
        try:
            p = os.path.join(tmp, "neg.ndjson")
            with open(p, "w") as fh:
                for x in keep + [target]:
                    fh.write(json.dumps(x, separators=(",", ":")) + "\n")
            r, fails = L.run_report(p, 300)
            preds = set(f[0] for f in fails)
            if pred_expected in preds:
                return dict(case=cnum, family=target.get("fam"), rejected_by=sorted(preds))
            raise vlib.Inconclusive("negative control not rejected by %s (got %s): the binding is broken" % (pred_expected, sorted(preds)))
        finally:
            shutil.rmtree(tmp, ignore_errors=True)
    raise vlib.Inconclusive("negative control: no applicable concurrent case for %s" % prop)


def m_flip_outcome(line):
    """Pretend a refused request succeeded (without any effect): no serial order explains that."""
    for r in line["ress"]:
        if not r["ok"]:
            r["ok"], r["err"] = True, ""
            r["id"] = 99
            return True
    for r in line["ress"]:
        if r["ok"] and not r["hit"]:
            r["ok"], r["err"], r["id"] = False, "insufficient", 0
            return True
    return False


def m_swap_ids(line):
    oks = [i for i, r in enumerate(line["ress"]) if r["ok"] and not r["hit"] and line["cseq"][i] > 0 and line["ops"][i]["k"] in ("create", "revert")]
    if len(oks) < 2:
        return False
    a, b = oks[0], oks[1]
    line["cseq"][a], line["cseq"][b] = line["cseq"][b], line["cseq"][a]
    return True


def m_drop_block(line):
    """Pretend the last block was never built: at quiescence the blocks no longer reach the last log."""
    bs = line.get("blk", {}).get("l1") or []
    if not bs or not line.get("quiet"):
        return False
    bs.pop()
    return True


def m_break_chain(line):
    st = line["st"]["l1"]
    if not st["flags"]["hash"] or len(line["chain"]) < 2:
        return False
    line["chain"][-1] = line["chain"][0]
    return True
