#!/usr/bin/env python3
"""Check of property C34 (async log blocks): design model spec/AsyncBlocks.tla (TLC, with the two cfgs that
document the known finding), sequential histories with builder runs (checks/ledger_common.py, kind blocks) and
explored interleavings of writers with the real AsyncBlockRunner (checks/conc_common.py, families blocks/).
See DESIGN.md §6 C34."""
import os
import sys

sys.path.insert(0, os.path.dirname(os.path.abspath(__file__)))
sys.path.insert(0, os.path.join(os.path.dirname(os.path.abspath(__file__)), "..", "lib"))
import conc_common as K
import ledger_common as L
import ledger_mutators as M
import vlib

PROP = "C34"


def run(c):
    d = L.build_pipeline(c.tier, c.seed)
    L.evaluate(c, PROP, d)
    pred, mut = M.CONTROLS[PROP]
    c.set("negative_control_sequential", L.negative_control(d, c.seed, pred, mut))
    dc = K.build_conc(c.tier, c.seed, PROP)
    K.evaluate_conc(c, PROP, dc)
    c.set("negative_control_concurrent", K.negative_control_conc(dc, c.seed, PROP, "Step_C34_Quiescent", K.m_drop_block))


vlib.main(run, PROP, "model_checking")
