#!/usr/bin/env python3
"""C27 - Compiling and running any input never crashes (run-time half only).

spec/Numscript.tla supplies every well-typed program of the bounded grammar (the same TLC case
stream as C22, theorems checked). For a deterministic stride of them the harness runs, through
MachineNumscriptRuntimeAdapter and DefaultInterpreterMachineAdapter: the well-typed baseline
(both renderings), ill-typed / missing / negative / malformed variable bindings, stores that do
not return the requested balances, `print` statements (number, monetary, account, asset, string,
portion, expressions; before / between / after the other statements, also in scripts whose send
then fails; machine runtime only, through the adapter production uses, which installs no printer),
and every single-token deletion and duplication of the rendered text. A class of inputs that
hangs three times is not executed further (each hang costs 30 s); the hangs seen are reported. Oracle: no panic (recovered and reported), termination within the timeout, and
an error never comes together with a result. Arbitrary byte strings are out of scope.
"""
import copy
import numscript_common as nc
import vlib

PREFIX = ("robust/",)
STRIDE = {"quick": 4, "thorough": 5}
TOKEN_EVERY = {"quick": 6, "thorough": 4}


def run(c):
    ctx = nc.Ctx(c)
    try:
        nc.build(ctx)
        path, n = nc.generate_program_cases(ctx)
        offset = c.seed % STRIDE[c.tier]
        summ, _ = nc.run_harness(ctx, "robust", path, "c27", args=["--stride", str(STRIDE[c.tier]), "--offset", str(offset),
                                                                   "--token-every", str(TOKEN_EVERY[c.tier])])
        cnt = summ["counts"]
        c.set("evaluations", cnt.get("evaluations", 0))
        c.set("distinct_nontrivial", cnt.get("distinct_nontrivial", 0))
        c.set("distinct_inputs", cnt.get("distinct_inputs", 0))
        c.set("programs_from_spec", n)
        c.set("programs_mutated", cnt.get("cases", 0))
        c.set("rule", "distinct = SHA-1 of (script text, variables JSON, store behaviour); non-trivial = the machine compiler "
                      "accepts the script, i.e. the input reaches SetVarsFromJSON / ResolveResources / ResolveBalances / Execute")
        c.set("print_variants_run", cnt.get("print_variants_run", 0))
        c.set("print_variants_executed", cnt.get("print_variants_executed", 0))
        if cnt.get("variants_skipped_after_repeated_hangs", 0):
            c.set("variants_skipped_after_repeated_hangs", cnt["variants_skipped_after_repeated_hangs"])
        if cnt.get("distinct_nontrivial", 0) < 10000:
            raise vlib.Inconclusive("too few run-time inputs: %s" % cnt)
        if cnt.get("print_variants_executed", 0) < 1000 and not any(e["kind"].startswith("robust/hang") for e in summ.get("signatures", [])):
            raise vlib.Inconclusive("too few executed `print` variants: %s" % cnt)
        for s in summ.get("samples", [])[:4]:
            c.sample(s)
        c.assume("run-time half only: inputs are well-typed programs of the bounded grammar of spec/Numscript.tla and their "
                 "single-token deletions/duplications, ill-typed variable bindings and missing balances; arbitrary byte "
                 "strings are not covered")
        c.assume("hang = no result within 30 s (10 s + grace period) for one execution")
        c.assume(nc.ASSUME_SCOPE)
        nc.report(ctx, "robust", summ, PREFIX)

        # negative controls: an injected panic and an injected hang must be reported
        picked = nc.pick_cases(path, lambda k: k["exp"]["ok"], limit=1)
        if not picked:
            raise vlib.Inconclusive("no case for the negative control")
        p1 = copy.deepcopy(picked[0][1]); p1["inject"] = "panic"
        nc.negative_control(ctx, "robust", [p1], "c27a", "robust/panic", args=["--token-every", "0", "--no-interp"])
        p2 = copy.deepcopy(picked[0][1]); p2["inject"] = "hang"
        nc.negative_control(ctx, "robust", [p2], "c27b", "robust/hang", args=["--token-every", "0", "--no-interp", "--workers", "16"],
                            env={"VH_EXEC_TIMEOUT_MS": "150"})
        c.set("negative_control", "injected panic and injected hang in the protected execution: both reported")
    finally:
        ctx.close()


if __name__ == "__main__":
    vlib.main(run, "C27", "exploration")
