#!/usr/bin/env python3
"""C23 - Numscript never overdraws a bounded source.

Spec theorems (TLC, every case): every bounded source that is never declared unbounded ends the
script at >= min(initial, -bound) (ThmBounded), and each send leaves each of its bounded sources
at >= min(balance before the send, -bound) (ThmBoundedPerSend) - with negative initial balances
and funds received earlier in the same script. Code: the same predicate is evaluated on the
postings the real machine produced for every case (final = initial + real postings).
"""
import copy
import numscript_common as nc
import vlib

PREFIX = ("machine/overdrawn",)


def tight(k):
    """a bounded source is drained down to its limit (the property is not vacuous on this case)"""
    e = k["exp"]
    if not e["ok"]:
        return False
    for b in e["bounded"]:
        init, fin = k["bal"][b["a"]][b["as"]], e["fin"][b["a"]][b["as"]]
        if fin < init and fin == min(init, -b["bound"]):
            return True
    return False


def run(c):
    ctx = nc.Ctx(c)
    try:
        nc.build(ctx)
        path, n = nc.generate_program_cases(ctx)
        summ, _ = nc.run_harness(ctx, "cases", path, "c23", args=["--no-interp"])
        nc.common_evidence(ctx, n, summ)
        n_bounded = n_tight = n_over = n_neg = 0
        for _, k in nc.iter_cases(path):
            if k["exp"]["ok"] and k["exp"]["bounded"]:
                n_bounded += 1
                if tight(k):
                    n_tight += 1
                if any(b["bound"] > 0 and k["exp"]["fin"][b["a"]][b["as"]] < 0 for b in k["exp"]["bounded"]):
                    n_over += 1
                if any(k["bal"][b["a"]][b["as"]] < 0 for b in k["exp"]["bounded"]):
                    n_neg += 1
        c.set("successful_cases_with_bounded_sources", n_bounded)
        c.set("cases_draining_a_bounded_source_to_its_limit", n_tight)
        c.set("cases_using_an_overdraft_allowance", n_over)
        c.set("cases_with_negative_initial_balance_of_a_bounded_source", n_neg)
        if n_tight < 100 or n_over < 20 or n_neg < 20:
            raise vlib.Inconclusive("vacuous for C23: bounded=%d tight=%d overdraft=%d negative=%d" % (n_bounded, n_tight, n_over, n_neg))
        for s in nc.samples_from(path, tight):
            c.sample({"program": s["prog"], "balances": s["bal"], "bounded_sources": s["exp"]["bounded"], "final": s["exp"]["fin"]})
        nc.report(ctx, "cases", summ, PREFIX)
        others = nc.other_kinds(summ, PREFIX)
        if others:
            c.note("disagreements attributed to other properties (C22/C27): %s" % others)

        # negative control: declare a smaller bound than the script uses -> the real postings overdraw it
        picked = nc.pick_cases(path, lambda k: k["exp"]["ok"] and any(
            b["bound"] > 0 and k["exp"]["fin"][b["a"]][b["as"]] < min(0, k["bal"][b["a"]][b["as"]]) for b in k["exp"]["bounded"]), limit=1)
        if not picked:
            raise vlib.Inconclusive("no case using an overdraft allowance for the negative control")
        bad = copy.deepcopy(picked[0][1])
        for b in bad["exp"]["bounded"]:
            b["bound"] = 0
        nc.negative_control(ctx, "cases", [bad], "c23", "machine/overdrawn", args=["--no-interp"])
        c.set("negative_control", "bound of an overdraft source lowered to 0 in an accepted case: flagged as overdrawn")
    finally:
        ctx.close()


if __name__ == "__main__":
    vlib.main(run, "C23", "model_checking")
