"""Shared pipeline of the sequential-history checks (Flow B on the ledger core):

  1. go build harness/cmd/vh-ledger against /repo's working tree
  2. TLC: exhaustive bounded model MC_Ledger (the property predicates as invariants / action properties)
  3. vh-ledger: seeded random histories through the real HTTP API over pgmodel -> NDJSON traces
  4. TLC: TraceLedger validates every trace (INVARIANTS + named action PROPERTIES); on a rejection the
     report spec lists every failing predicate with line and case
  5. negative control: one recorded field is corrupted and TLC must reject the trace with the right predicate

A predicate name carries the property id (Inv_C02_..., Step_C25_...); a check for property P reports only
predicates tagged P (plus untagged outcome mismatches on the operation kinds P owns).
The expensive steps are cached under .work/cache keyed by a hash of /repo's working tree, /verif's
sources, seed and tier, so the per-property checks of one run share them (same inputs => same outputs).
"""
import hashlib
import json
import os
import random
import re
import shutil
import subprocess
import sys
import time

sys.path.insert(0, os.path.join(os.path.dirname(os.path.abspath(__file__)), "..", "lib"))
import vlib

CACHE = os.path.join(vlib.VERIF, ".work", "cache")

TIERS = {
    # batches: (cases, length, scale, features)
    "quick": dict(mc_cfg="MC_Ledger_quick.cfg", mc_timeout=300,
                  batches=[(120, 10, "1", "default"), (30, 10, "2p64", "default"), (48, 8, "1", "sweep"),
                           (30, 12, "1", "multi"), (2, 8, "1", "featsweep"), (32, 8, "1", "impexp"),
                           (24, 12, "1", "blocks"), (24, 12, "1", "strings"), (16, 11, "1", "directed")]),
    "thorough": dict(mc_cfg="MC_Ledger_thorough.cfg", mc_timeout=3000,
                     batches=[(1500, 12, "1", "default"), (300, 12, "2p53", "default"), (300, 12, "2p63", "default"),
                              (300, 12, "2p64", "default"), (300, 12, "1e30", "default"), (480, 10, "prime", "sweep"),
                              (400, 14, "1", "multi"), (16, 10, "1", "featsweep"), (400, 10, "1", "impexp"),
                              (100, 10, "2p64", "impexp"), (300, 14, "1", "blocks"), (300, 12, "1", "strings"), (64, 11, "1", "directed"),
                              (32, 11, "2p64", "directed")]),
}

# outcome mismatches that no tagged predicate explains are attributed by operation kind
KIND_OWNER = {"create": "C25", "revert": "C15", "txmeta": "C17", "untxmeta": "C17", "acmeta": "C17", "unacmeta": "C17"}

# predicate -> known-finding signature (the predicate IS the finding: see spec/Ledger.tla)
PRED_SIG = {"Inv_C18_RevertFirstUsage": "revert-before-first-usage",
            "Step_C35_EffWithoutMoves": "effective-volumes-without-moves-history"}


def sh(cmd, **kw):
    return subprocess.run(cmd, stdout=subprocess.PIPE, stderr=subprocess.STDOUT, text=True, **kw)


def tree_hash(name=None):
    """Hash of everything the result depends on: /repo working tree and /verif sources."""
    h = hashlib.sha256()
    repo = vlib.REPO
    h.update(sh(["git", "-C", repo, "rev-parse", "HEAD"]).stdout.encode())
    h.update(sh(["git", "-C", repo, "diff", "HEAD"]).stdout.encode())
    unt = sh(["git", "-C", repo, "ls-files", "--others", "--exclude-standard"]).stdout.split("\n")
    for f in sorted(x for x in unt if x):
        p = os.path.join(repo, f)
        h.update(f.encode())
        try:
            with open(p, "rb") as fh:
                h.update(fh.read())
        except OSError:
            pass
    ledger = (name or "").startswith("ledger")
    for sub in ("harness", "spec", "lib", "checks"):
        base = os.path.join(vlib.VERIF, sub)
        for root, dirs, files in os.walk(base):
            dirs.sort()
            for f in sorted(files):
                if f.endswith((".go", ".tla", ".cfg", ".py", ".mod", ".json", ".sh")):
                    p = os.path.join(root, f)
                    if ledger and not _ledger_input(os.path.relpath(p, vlib.VERIF)):
                        continue
                    h.update(p.encode())
                    with open(p, "rb") as fh:
                        h.update(fh.read())
    return h.hexdigest()[:24]


_LEDGER_DIRS = ("harness/drive/", "harness/pgmodel/", "harness/stack/", "harness/deps/", "harness/cmd/vh-ledger/")
_LEDGER_SPECS = ("Ledger", "TraceLedger", "MC_Ledger", "LedgerPG", "MC_LedgerPG", "AsyncBlocks", "ImportLock")
_LEDGER_FILES = ("harness/go.mod", "lib/vlib.py", "lib/tlcrun.py", "checks/ledger_common.py", "checks/conc_common.py")


def _ledger_input(rel):
    """Files the sequential / concurrent ledger pipelines depend on (their cache is not invalidated by the
    sources of the other engines)."""
    if rel.startswith(_LEDGER_DIRS) or rel in _LEDGER_FILES:
        return True
    if rel.startswith("spec/"):
        base = os.path.basename(rel)
        return any(base == s + ".tla" or base.startswith(s + ".") or base.startswith(s + "_") for s in _LEDGER_SPECS)
    return False


_IN_USE = set()


def cached(name, tier, seed, build):
    """Return the directory holding the result of `build(dir)`, computing it at most once per input state."""
    try:
        th = tree_hash(name)
    except TypeError:   # a caller installed its own zero-argument hash
        th = tree_hash()
    key = "%s-%s-%s-%s" % (name, tier, seed, th)
    d = os.path.join(CACHE, key)
    done = os.path.join(d, "DONE")
    if not os.environ.get("VERIF_NOCACHE") and os.path.exists(done):
        try:
            os.utime(d)     # an entry in use is a recent entry: the purge below never takes it
        except OSError:
            pass
        _IN_USE.add(key)
    if os.environ.get("VERIF_NOCACHE") or not os.path.exists(done):
        os.makedirs(CACHE, exist_ok=True)
        # drop stale entries: older than 6h, or beyond the 60 most recent ones when older than 2h; never an
        # entry this process was handed (a check may consult a first result after building a second one)
        try:
            ents = sorted((os.path.getmtime(os.path.join(CACHE, e)), e) for e in os.listdir(CACHE))
            now = time.time()
            for i, (mt, e) in enumerate(ents):
                if e in _IN_USE:
                    continue
                if now - mt > 6 * 3600 or (len(ents) - i > 60 and now - mt > 2 * 3600):
                    shutil.rmtree(os.path.join(CACHE, e), ignore_errors=True)
        except OSError:
            pass
        tmp = d + ".tmp%d" % os.getpid()
        shutil.rmtree(tmp, ignore_errors=True)
        os.makedirs(tmp)
        build(tmp)
        open(os.path.join(tmp, "DONE"), "w").write("ok")
        shutil.rmtree(d, ignore_errors=True)
        os.rename(tmp, d)
        _IN_USE.add(key)
    return d


FAIL_RE = re.compile(r'<<"FAIL", "(\w+)", (\d+), (\d+)>>')


def run_report(trace_path, timeout):
    # an explicit heap: up to 14 of these run side by side in the thorough tier (the JVM default is 25% of the RAM each)
    r = vlib.tlc("TraceLedger", "TraceLedgerReport.cfg", workers=1, timeout=timeout, heap="4g",
                 extra_files=[("trace.ndjson", trace_path, None)])
    if r.error or r.rc != 0:
        raise vlib.Inconclusive("TLC report run failed: %s\n%s" % (r.error, r.out[-1500:]))
    fails = [(m.group(1), int(m.group(2)), int(m.group(3))) for m in FAIL_RE.finditer(r.out)]
    return r, fails


def split_trace(path, parts):
    """Split an NDJSON trace into `parts` files at case boundaries."""
    chunks, cur = [], []
    with open(path) as fh:
        for line in fh:
            if '"reset":true' in line[:40] and cur:
                chunks.append(cur)
                cur = []
            cur.append(line)
    if cur:
        chunks.append(cur)
    parts = max(1, min(parts, len(chunks)))
    out = []
    per = (len(chunks) + parts - 1) // parts
    for i in range(0, len(chunks), per):
        p = "%s.part%d" % (path, len(out))
        with open(p, "w") as fh:
            for c in chunks[i:i + per]:
                fh.writelines(c)
        out.append(p)
    return out


def build_pipeline(tier, seed):
    cfg = TIERS[tier]

    def build(d):
        exe = vlib.go_build("vh-ledger")
        res = dict(tier=tier, seed=seed, batches=[], fails=[], mc=None, trace_tlc=[], projection=[], inconclusive=[])
        # (2) exhaustive bounded model
        mc = vlib.tlc("MC_Ledger", cfg["mc_cfg"], workers=8 if tier == "quick" else 14, timeout=cfg["mc_timeout"])
        res["mc"] = mc.summary()
        if not mc.ok:
            raise vlib.Inconclusive("specification-level TLC run failed (a spec problem, not a verdict about the code): %s %s\n%s"
                                    % (mc.violations, mc.error, mc.out[-1500:]))
        # (3) traces
        all_trace = os.path.join(d, "trace.ndjson")
        all_cases = []
        with open(all_trace, "w") as allf:
            base = 0
            for bi, (n, length, scale, feat) in enumerate(cfg["batches"]):
                tp = os.path.join(d, "b%d.ndjson" % bi)
                cp = os.path.join(d, "b%d.cases.json" % bi)
                cmd = [exe, "seq", "-seed", str(seed * 100 + bi), "-cases", str(n), "-len", str(length), "-scale", scale,
                       "-out", tp, "-cases-out", cp]
                if feat == "featsweep":
                    # n histories, each under all 48 feature combinations (C35)
                    cmd = [exe, "featsweep", "-seed", str(seed * 100 + bi), "-histories", str(n), "-len", str(length),
                           "-scale", scale, "-out", tp, "-cases-out", cp]
                else:
                    cmd += ["-multi"] if feat == "multi" else ["-features", feat]
                p = sh(cmd, timeout=3000)
                try:
                    summ = json.loads(p.stdout.strip().splitlines()[-1])
                except Exception:
                    raise vlib.Inconclusive("vh-ledger died: " + p.stdout[-1500:])
                summ["scale"], summ["features"] = scale, feat
                res["batches"].append(summ)
                cases = json.load(open(cp))
                # renumber cases globally
                for line in open(tp):
                    obj = json.loads(line)
                    obj["case"] += base
                    allf.write(json.dumps(obj, separators=(",", ":")) + "\n")
                for c in cases:
                    c["case"] += base
                    c["batch"] = bi
                    c["kind"] = feat
                all_cases.extend(cases)
                for pf in summ.get("projection", []):
                    pf["case"] += base
                    pf["scale"] = scale
                    res["projection"].append(pf)
                res["inconclusive"].extend(summ.get("inconclusive", []))
                base += len(cases)
                os.remove(tp)
        json.dump(all_cases, open(os.path.join(d, "cases.json"), "w"))
        if res["inconclusive"]:
            raise vlib.Inconclusive("harness could not run some cases: %s" % res["inconclusive"][:3])
        # (4) trace validation, in parallel chunks
        parts = split_trace(all_trace, 4 if tier == "quick" else 14)
        import concurrent.futures as cf
        line_offsets = []
        off = 0
        for p in parts:
            line_offsets.append(off)
            off += sum(1 for _ in open(p))

        def one(p):
            return run_report(p, 1200 if tier == "quick" else 5400)
        with cf.ThreadPoolExecutor(max_workers=len(parts)) as ex:
            outs = list(ex.map(one, parts))
        for (r, fails), lo, p in zip(outs, line_offsets, parts):
            res["trace_tlc"].append(r.summary())
            for (pred, ln, case) in fails:
                res["fails"].append([pred, ln + lo, case])
            os.remove(p)
        json.dump(res, open(os.path.join(d, "result.json"), "w"))

    return cached("ledgerseq", tier, seed, build)


def load_lines(d, cases=None):
    out = []
    with open(os.path.join(d, "trace.ndjson")) as fh:
        for i, line in enumerate(fh, 1):
            out.append(line)
    return out


def negative_control(d, seed, pred_expected, mutate):
    """Corrupt an accepted case with `mutate(list_of_line_objs) -> bool` and require TLC to report pred_expected."""
    lines = [json.loads(x) for x in open(os.path.join(d, "trace.ndjson"))]
    res = json.load(open(os.path.join(d, "result.json")))
    bad_cases = set(c for (_, _, c) in res["fails"])
    rnd = random.Random(seed)
    by_case = {}
    for ln in lines:
        by_case.setdefault(ln["case"], []).append(ln)
    cands = [c for c in sorted(by_case) if c not in bad_cases]
    rnd.shuffle(cands)
    tried = []
    for c in cands:
        cl = json.loads(json.dumps(by_case[c]))
        if not mutate(cl):
            continue
        tmp = vlib.scratch("neg")
        try:
            p = os.path.join(tmp, "neg.ndjson")
            with open(p, "w") as fh:
                for x in cl:
                    fh.write(json.dumps(x, separators=(",", ":")) + "\n")
            r, fails = run_report(p, 300)
            preds = set(f[0] for f in fails)
            if pred_expected in preds:
                return dict(case=c, rejected_by=sorted(preds), corrupted_cases_tried=len(tried) + 1)
            if not preds:
                raise vlib.Inconclusive("negative control: a corrupted trace (case %s) was accepted: the binding is broken" % c)
            # rejected, but by the predicates of the fields the corruption also touches: try another case
            tried.append((c, sorted(preds)))
            if len(tried) >= 4:
                break
        finally:
            shutil.rmtree(tmp, ignore_errors=True)
    if tried:
        raise vlib.Inconclusive("negative control not rejected by %s (got %s): the binding is broken" % (pred_expected, tried))
    raise vlib.Inconclusive("negative control: no applicable case for %s" % pred_expected)


def prop_of(pred):
    m = re.match(r"(?:Inv|Step)_(C\d\d)_", pred)
    return m.group(1) if m else None


def evaluate(c, prop, d, extra_preds=()):
    """Turn the cached pipeline result into verdicts for property `prop`."""
    res = json.load(open(os.path.join(d, "result.json")))
    cases = {x["case"]: x for x in json.load(open(os.path.join(d, "cases.json")))}
    lines = None
    c.add("states", res["mc"]["distinct"])
    c.add("transitions", res["mc"]["generated"])
    c.cov.setdefault("tlc_runs", []).append(dict(label="MC_Ledger exhaustive bounded model", **res["mc"]))
    steps = 0
    for t in res["trace_tlc"]:
        c.add("states", t["distinct"])
        c.add("transitions", t["generated"])
        steps += t["distinct"]
    ncases = sum(b["cases"] for b in res["batches"])
    c.set("traces_validated_against_impl", ncases)
    c.set("trace_steps", sum(b["steps"] for b in res["batches"]))
    c.set("committed_writes", sum(b["committed"] for b in res["batches"]))
    c.set("failed_requests", sum(b["failed"] for b in res["batches"]))
    c.set("batches", [dict(cases=b["cases"], scale=b["scale"], features=b["features"]) for b in res["batches"]])
    mine = {}
    others = {}
    for pred, ln, case in res["fails"]:
        p = prop_of(pred)
        owner = p
        if p is None:
            if lines is None:
                lines = load_lines(d)
            op = json.loads(lines[ln - 1])["op"]
            owner = KIND_OWNER.get(op.get("k"), None)
        if p is None and cases.get(case, {}).get("kind") == "impexp":
            owner = "C11"   # an unexplained outcome in an export/import/write-on-the-copy history is C11's
        # extra_preds: predicate names this property also owns, or (name, history kind) pairs
        if owner == prop or pred in extra_preds or (pred, cases.get(case, {}).get("kind")) in extra_preds:
            mine.setdefault((pred, case), ln)
        else:
            others[pred] = others.get(pred, 0) + 1
    # projection failures (off-grid timestamp, amount not divisible by the scale): exactness properties
    for pf in res["projection"]:
        m_kind = re.search(r"after step \d+ \((\w+),", pf["msg"])
        kind_owner = KIND_OWNER.get(m_kind.group(1)) if m_kind else None
        if prop == "C36" or (prop in ("C01", "C02") and "multiple of the scale" in pf["msg"]) or prop == kind_owner:
            mine.setdefault(("Projection:" + re.sub(r"\d+", "N", pf["msg"])[:90], pf["case"]), 0)
        else:
            others["Projection"] = others.get("Projection", 0) + 1
    if others:
        c.note("predicates of other properties failed on this run (see their checks): %s" % others)
    seen_sig = set()
    for (pred, case), ln in sorted(mine.items(), key=lambda kv: (kv[0][1], kv[1])):
        sig = PRED_SIG.get(pred, pred)
        if sig in seen_sig:
            continue
        seen_sig.add(sig)
        cs = cases.get(case, {})
        text = "predicate %s of spec/TraceLedger.tla fails at step %s of case %s (seed %s, scale %s)" % (
            pred, ln, case, cs.get("seed"), cs.get("scale"))
        c.violation(sig, text, dict(kind="ledgerseq", predicate=pred, case=cs))
    # samples
    if lines is None:
        lines = load_lines(d)
    for raw in lines[1:3]:
        o = json.loads(raw)
        c.sample(dict(op=o["op"], res=o["res"], events=o["ev"], ntxs=len(o["st"].get("l1", {}).get("txs", []))))
    c.assume("pgmodel (harness/pgmodel) stands in for PostgreSQL: it executes the repository's real SQL text and migration files "
             "with documented elementary semantics; a divergence from real Postgres is a threat to validity (DESIGN.md §10)")
    c.assume("histories are sequential here; concurrency is covered by the interleaving checks (C06, C09, C13, C16)")
    return res
