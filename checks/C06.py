#!/usr/bin/env python3
"""Check of property C06: sequential histories (checks/ledger_common.py) = no, explored interleavings
(checks/conc_common.py) = yes. See DESIGN.md §6 C06."""
import os
import sys

sys.path.insert(0, os.path.dirname(os.path.abspath(__file__)))
sys.path.insert(0, os.path.join(os.path.dirname(os.path.abspath(__file__)), "..", "lib"))
import conc_common as K
import ledger_common as L
import ledger_mutators as M
import vlib

PROP = "C06"
SEQ = True


def run(c):
    if SEQ:
        # sequential half: a request is accepted exactly when every bounded source stays within its allowance after
        # the postings applied in order (Ledger!FundsOK) - incl. scripts using one bounded-overdraft source twice
        d = L.build_pipeline(c.tier, c.seed)
        # (a non-forced revert that would overdraw an account must be refused too: Step_C15_RevertOutcome)
        L.evaluate(c, PROP, d, extra_preds=("Step_C25_Funds", "Step_C15_RevertOutcome"))
        pred, mut = M.CONTROLS[PROP]
        c.set("negative_control_sequential", L.negative_control(d, c.seed, pred, mut))
    dc = K.build_conc(c.tier, c.seed, PROP)
    K.evaluate_conc(c, PROP, dc)
    c.set("negative_control_concurrent", K.negative_control_conc(dc, c.seed, PROP, "StepC_C06_Serializable", K.m_flip_outcome))


vlib.main(run, PROP, "model_checking")
