"""SYSTEM-level stage (ledger registry, bucket lifecycle, exporters / pipelines CRUD through the v2 API).

  system_stage(c, tier, seed)   c: vlib.Check
    1. go build harness/cmd/vh-system against the repository's working tree
    2. TLC: bounded exhaustive models MC_System (registry menu, pipelines menu) - invariants and step theorems
       of spec/System.tla
    3. vh-system gen: seeded histories (6-14 requests, sequential) + directed scenarios through the REAL v2 router
       (exporters / pipelines routes enabled, real replication.Manager) over pgmodel -> NDJSON trace
    4. TLC: spec/TraceSystem.tla validates every line (report mode: every failing predicate is listed)
    5. negative controls: one recorded field corrupted, TLC must reject with the expected predicate

A predicate of TraceSystem failing on a real execution is a violation (signature sys:<predicate>:<op kind>:<observed
outcome>); a failure of the specification alone, of the harness or of a negative control is INCONCLUSIVE.
Limits (test environment): pgmodel has no foreign keys (generator: pipelines only on existing exporters, exporters
deleted only without pipelines) and does not undo DDL on ROLLBACK (generator: no duplicate-name creation in a
never-migrated bucket); see harness/sysdrive/gen.go.
"""
import concurrent.futures as cf
import json
import os
import random
import re
import shutil
import subprocess
import sys
import time

sys.path.insert(0, os.path.join(os.path.dirname(os.path.abspath(__file__)), "..", "lib"))
import vlib

TIERS = {
    "quick": dict(cases=150, parts=4, mc=[("MC_System_registry_quick.cfg", 300), ("MC_System_pipelines_quick.cfg", 300)],
                  controls=2, gen_timeout=600, tlc_timeout=900),
    "thorough": dict(cases=2000, parts=12, mc=[("MC_System_registry_thorough.cfg", 2400), ("MC_System_pipelines_thorough.cfg", 2400)],
                     controls=5, gen_timeout=3000, tlc_timeout=5400),
}

FAIL_RE = re.compile(r'<<"FAIL", "(\w+)", (\d+), (\d+)>>')


def run_report(trace_path, timeout):
    r = vlib.tlc("TraceSystem", "TraceSystemReport.cfg", workers=1, timeout=timeout,
                 extra_files=[("trace.ndjson", trace_path, None)])
    if r.error or r.rc != 0:
        raise vlib.Inconclusive("TLC trace validation (TraceSystem) did not complete: %s\n%s" % (r.error, r.out[-1500:]))
    fails = [(m.group(1), int(m.group(2)), int(m.group(3))) for m in FAIL_RE.finditer(r.out)]
    return r, fails


def split_cases(lines, parts):
    """lines: list of raw NDJSON lines -> list of lists, split at case boundaries (reset lines)."""
    chunks, cur = [], []
    for ln in lines:
        if '"reset":true' in ln[:60] and cur:
            chunks.append(cur)
            cur = []
        cur.append(ln)
    if cur:
        chunks.append(cur)
    parts = max(1, min(parts, len(chunks)))
    per = (len(chunks) + parts - 1) // parts
    out = []
    for i in range(0, len(chunks), per):
        out.append([x for ch in chunks[i:i + per] for x in ch])
    return out


# ----------------------------------------------------------------------------- negative controls
# each: (expected predicate, mutate(list of line objects of one case) -> bool)

def _m_conflict(ls):
    for l in ls:
        if l["op"]["k"] == "create" and l["res"]["out"] == "conflict":
            l["res"]["out"], l["res"]["st"] = "ok", 204
            return True
    return False


def _m_validation(ls):
    for l in ls:
        if l["op"]["k"] == "create" and l["res"]["out"] == "validation" and not l["op"]["bad"]:
            l["res"]["out"], l["res"]["st"] = "ok", 204
            return True
    return False


def _m_unhide(ls):
    for l in ls:
        if l["op"]["k"] == "delbucket":
            hit = [r for r in l["st"]["all"] if r["bucket"] == l["op"]["b"] and r["del"]]
            if hit:
                hit[0]["del"] = False
                return True
    return False


def _m_restore_wrong(ls):
    for l in ls:
        if l["op"]["k"] == "restore":
            other = [r for r in l["st"]["all"] if r["bucket"] != l["op"]["b"] and r["del"]]
            if other:
                other[0]["del"] = False
                return True
    return False


def _m_pages(ls):
    for l in ls:
        pg = l["st"]["pages"]
        if len(pg) >= 2:
            pg[1] = [pg[0][0]] + pg[1][1:] if len(pg[1]) > 1 else [pg[0][0]]   # first ledger listed twice
            return True
    return False


def _m_metascope(ls):
    for l in ls:
        if l["op"]["k"] == "setmeta" and l["res"]["out"] == "ok":
            others = [r for r in l["st"]["all"] if r["name"] != l["op"]["n"]]
            if others:
                others[0]["meta"] = [["k1", "zz"]]
                return True
    return False


def _m_bucket_changed(ls):
    for l in ls[1:]:
        if l["st"]["all"] and not l["reset"]:
            l["st"]["all"][0]["bucket"] = "b9"
            return True
    return False


CONTROLS = [
    ("Step_SYS_DuplicateName", _m_conflict),
    ("Step_SYS_HidesExactly", _m_unhide),
    ("Inv_SYS_Pagination", _m_pages),
    ("Step_SYS_MetaScope", _m_metascope),
    ("Step_SYS_Validation", _m_validation),
    ("Step_SYS_BucketFrame", _m_restore_wrong),
    ("Step_SYS_Immutable", _m_bucket_changed),
]


def negative_control(by_case, bad_cases, seed, pred_expected, mutate):
    rnd = random.Random(seed)
    cands = [c for c in sorted(by_case) if c not in bad_cases]
    rnd.shuffle(cands)
    tried = []
    for cno in cands:
        cl = json.loads(json.dumps(by_case[cno]))
        if not mutate(cl):
            continue
        tmp = vlib.scratch("sysneg")
        try:
            p = os.path.join(tmp, "neg.ndjson")
            with open(p, "w") as fh:
                for x in cl:
                    fh.write(json.dumps(x, separators=(",", ":")) + "\n")
            r, fails = run_report(p, 300)
            preds = sorted(set(f[0] for f in fails))
            if pred_expected in preds:
                return dict(predicate=pred_expected, case=cno, rejected_by=preds, corrupted_cases_tried=len(tried) + 1)
            if not preds:
                raise vlib.Inconclusive("negative control %s: a corrupted trace (case %s) was accepted: the binding is broken"
                                        % (pred_expected, cno))
            tried.append((cno, preds))
            if len(tried) >= 3:
                break
        finally:
            shutil.rmtree(tmp, ignore_errors=True)
    if tried:
        raise vlib.Inconclusive("negative control not rejected by %s (got %s): the binding is broken" % (pred_expected, tried))
    raise vlib.Inconclusive("negative control: no applicable case for %s" % pred_expected)


# ----------------------------------------------------------------------------- the stage

def system_stage(c, tier, seed, mc=True, controls=True):
    """mc / controls = False: development aid (mutation runs: the specification is unchanged)."""
    cfg = TIERS[tier]
    t0 = time.time()
    exe = vlib.go_build("vh-system")
    info = dict(tier=tier, seed=seed)

    # (2) bounded exhaustive models, in the background while the histories run
    pool = cf.ThreadPoolExecutor(max_workers=16)
    mc_jobs = [(name, pool.submit(vlib.tlc, "MC_System", name, 4 if tier == "quick" else 6, to))
               for name, to in (cfg["mc"] if mc else [])]

    # (3) histories through the real API
    work = vlib.scratch("sys")
    try:
        tp, cp = os.path.join(work, "trace.ndjson"), os.path.join(work, "cases.json")
        try:
            p = subprocess.run([exe, "gen", "-seed", str(seed), "-cases", str(cfg["cases"]), "-out", tp, "-cases-out", cp,
                                "-workers", "8"], stdout=subprocess.PIPE, stderr=subprocess.STDOUT, text=True,
                               timeout=cfg["gen_timeout"])
        except subprocess.TimeoutExpired:
            raise vlib.Inconclusive("vh-system gen did not finish in %ss" % cfg["gen_timeout"])
        try:
            summ = json.loads(p.stdout.strip().splitlines()[-1])
        except Exception:
            raise vlib.Inconclusive("vh-system died: " + p.stdout[-1500:])
        if summ.get("inconclusive"):
            raise vlib.Inconclusive("vh-system could not run some cases: %s" % summ["inconclusive"][:3])
        info["gen_s"] = round(time.time() - t0, 1)
        raw = open(tp).read().splitlines(keepends=True)
        cases = {x["case"]: x for x in json.load(open(cp))}

        # (4) trace validation in parallel parts
        parts = split_cases(raw, cfg["parts"])
        paths, offs, off = [], [], 0
        for i, part in enumerate(parts):
            pp = os.path.join(work, "part%d.ndjson" % i)
            with open(pp, "w") as fh:
                fh.writelines(part)
            paths.append(pp)
            offs.append(off)
            off += len(part)
        outs = list(pool.map(lambda pp: run_report(pp, cfg["tlc_timeout"]), paths))
        fails = []
        for (r, fs), lo in zip(outs, offs):
            c.add_tlc(r, "TraceSystem: real executions validated against System")
            fails.extend((pred, ln + lo, cno) for (pred, ln, cno) in fs)
        info["trace_s"] = round(time.time() - t0, 1)
    finally:
        shutil.rmtree(work, ignore_errors=True)

    for name, job in mc_jobs:
        r = job.result()
        c.add_tlc(r, "MC_System bounded exhaustive model (%s)" % name)
        if not r.ok:
            raise vlib.Inconclusive("specification-level TLC run %s failed (a spec problem, not a verdict about the code): %s %s\n%s"
                                    % (name, r.violations, r.error, r.out[-1200:]))
        info.setdefault("mc", []).append(dict(cfg=name, generated=r.generated, distinct=r.distinct, wall_s=round(r.wall, 1)))

    # (5) verdicts
    lines = [json.loads(x) for x in raw]
    by_case = {}
    for l in lines:
        by_case.setdefault(l["case"], []).append(l)
    nontrivial = sum(1 for l in lines if not l["reset"] and l["res"]["out"] == "ok" and
                     l["op"]["k"] in ("create", "setmeta", "delmeta", "delbucket", "restore", "pcreate", "ecreate", "pstart", "pstop", "pdel", "edel"))
    if nontrivial < cfg["cases"]:
        raise vlib.Inconclusive("vacuous run: only %d accepted state-changing requests in %d histories" % (nontrivial, cfg["cases"]))
    c.add("traces_validated_against_impl", len(by_case))
    info.update(histories=len(by_case), steps=summ["steps"], outcomes=summ["outcomes"], op_kinds=summ["opKinds"],
                kinds=summ["kinds"], accepted_state_changes=nontrivial)
    seen = set()
    first = set()   # a predicate is reported at the request that first breaks it in a history
    for pred, ln, cno in sorted(fails, key=lambda f: (f[2], f[1])):
        if (pred, cno) in first:
            continue
        first.add((pred, cno))
        l = lines[ln - 1]
        if pred == "Step_SYS_Universe":
            raise vlib.Inconclusive("harness produced a request outside the specification's universe: %s" % json.dumps(l["op"])[:300])
        sig = "sys:%s:%s:%s" % (pred, l["op"]["k"] or "reset", l["res"]["out"] or "-")
        if sig in seen:
            continue
        seen.add(sig)
        cs = cases.get(cno, {})
        text = ("predicate %s of spec/TraceSystem.tla fails at request %d of history %d (kind %s, seed %s): request %s answered %s %s"
                % (pred, l["i"], cno, cs.get("kind"), cs.get("seed"), json.dumps(l["op"], separators=(",", ":"))[:260], l["res"]["out"], l["res"]["st"]))
        c.violation(sig, text, dict(kind="system", predicate=pred, step=l["i"], case=cs))
    bad_cases = set(f[2] for f in fails)

    # (6) negative controls
    rot = seed % len(CONTROLS)
    chosen = (CONTROLS[rot:] + CONTROLS[:rot])[:cfg["controls"] if controls else 0]
    jobs = [pool.submit(negative_control, by_case, bad_cases, seed + i, pred, mut) for i, (pred, mut) in enumerate(chosen)]
    info["negative_controls"] = [j.result() for j in jobs]
    pool.shutdown()
    info["wall_s"] = round(time.time() - t0, 1)
    c.set("system_stage", info)
    for l in lines[1:3]:
        c.sample(dict(op=l["op"], res=dict(out=l["res"]["out"], st=l["res"]["st"]), ledgers=[r["name"] for r in l["st"]["all"]]))
    c.assume("system level: pgmodel has no foreign keys and does not undo DDL on ROLLBACK; the history generator avoids the requests "
             "whose outcome depends on them (pipeline on a missing exporter, exporter deleted with pipelines, duplicate name in a "
             "never-migrated bucket)")
    return info
