#!/usr/bin/env python3
"""C24 - Allotments split amounts exactly.

TLC enumerates every portion vector (length <= 4, common denominator <= 4 quick / <= 12
thorough, zero portions, `remaining`) x amounts and checks the theorems on Numscript!Allocate:
parts sum to the amount, each part is the exact floor or the floor + 1, the extra units form a
prefix (earliest parts), plus the scaling lemma Allocate(ps, m*D + r) = m*nums + Allocate(ps, r).
Code: the real machine.NewAllotment / Allotment.Allocate is called on every enumerated case and
on the case scaled by 2^53+1, 2^64+1, 10^30 and into the window just below 10^18, 2^62+1,
2^63-25, 2^64-1 (via the lemma); the script cases are scaled the same way; allotment sources and
destinations are also run through scripts (family A) and the compiler's static rule "portions
must provably sum to 100 %" through the reject family X.
"""
import copy
import numscript_common as nc
import vlib


def run(c):
    ctx = nc.Ctx(c)
    try:
        nc.build(ctx)
        apath, na = nc.generate_allot_cases(ctx)
        asumm, _ = nc.run_harness(ctx, "allot", apath, "c24")
        ppath, npg = nc.generate_program_cases(ctx, families=["A", "X"], with_random=False, name="c24prog.ndjson")
        psumm, _ = nc.run_harness(ctx, "cases", ppath, "c24p", args=["--no-interp"])
        c.set("traces_validated_against_impl", na + npg)
        c.set("allocate_cases", na)
        c.set("allocate_calls_on_real_code", asumm["counts"].get("evaluations", 0))
        c.set("allotment_script_cases", npg)
        c.set("harness_counts", {"allot": asumm["counts"], "scripts": psumm["counts"]})
        if asumm["counts"].get("cases") != na or psumm["counts"].get("cases") != npg:
            raise vlib.Inconclusive("harness did not evaluate every case")
        if asumm["counts"].get("nontrivial", 0) < na // 2:
            raise vlib.Inconclusive("vacuous allotment stream: %s" % asumm["counts"])
        for s in nc.samples_from(apath, lambda k: sum(1 for p in k["parts"] if p > 0) >= 2 and k["amt"] % k["den"] != 0):
            c.sample(s)
        c.assume("portion vectors of length <= 4 with common denominator <= %d; amounts 0..%d densely then a sparse set up to %d" %
                 ((4, 40, 200) if c.tier == "quick" else (12, 60, 2000)))
        c.assume("amounts beyond TLC's 32-bit integers are reached only through the scaling lemma "
                 "Allocate(ps, m*D + r) = m*nums + Allocate(ps, r), checked by TLC for m <= 3 and instantiated on the real "
                 "code with m in {2^53, 2^64, 10^30-1} and with the m that put m*D + r just below 10^18, 2^62+1, 2^63-25 and "
                 "2^64-1 (inside the 64-bit word, where amount*numerator already leaves it); script cases are scaled the same "
                 "way through ThmScriptScale (postings affine in m, TLC-checked for m = 1..3); percent-like portions "
                 "x/100 for x in {1,7,33,50,67,99}; arbitrary huge amounts/denominators are outside this check")
        c.assume(nc.ASSUME_STORE)
        nc.report(ctx, "allot", asumm, ("alloc/",))
        nc.report(ctx, "cases", psumm, ("machine-vs-spec/",))

        # negative controls
        picked = nc.pick_cases(apath, lambda k: len(k["parts"]) >= 2 and k["amt"] > 3, limit=1, stride=5)
        if not picked:
            raise vlib.Inconclusive("no case for the negative control")
        bad = copy.deepcopy(picked[0][1])
        bad["parts"][0] += 1
        bad["parts"][1] -= 1
        nc.negative_control(ctx, "allot", [bad], "c24a", "alloc/part")
        pk = nc.pick_cases(ppath, lambda k: k["exp"]["ok"] and len(k["exp"]["posts"]) >= 2 and k["exp"]["posts"][0]["n"] > 0, limit=1, stride=3)
        if not pk:
            raise vlib.Inconclusive("no script case for the negative control")
        badp = copy.deepcopy(pk[0][1])
        badp["exp"]["posts"][0]["n"] -= 1
        badp["exp"]["posts"][1]["n"] += 1
        nc.negative_control(ctx, "cases", [badp], "c24b", "machine-vs-spec/postings", args=["--no-interp"])
        goodp = copy.deepcopy(pk[0][1])
        goodp["inject"] = "scaled-part"
        nc.negative_control(ctx, "cases", [goodp], "c24c", "machine-vs-spec/scaled-", args=["--no-interp"])
        c.set("negative_control", "one unit moved between two prescribed parts (direct call and script): flagged")
    finally:
        ctx.close()


if __name__ == "__main__":
    vlib.main(run, "C24", "model_checking")
