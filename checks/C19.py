#!/usr/bin/env python3
"""Check of property C19: see checks/ledger_common.py (pipeline) and DESIGN.md §6 C19."""
import os
import sys

sys.path.insert(0, os.path.dirname(os.path.abspath(__file__)))
sys.path.insert(0, os.path.join(os.path.dirname(os.path.abspath(__file__)), "..", "lib"))
import ledger_common as L
import ledger_mutators as M
import system_common as S
import vlib

PROP = "C19"


def run(c):
    d = L.build_pipeline(c.tier, c.seed)
    # in the multi-ledger histories (same keys, references and addresses on every ledger) a wrong idempotency /
    # reference / outcome answer on one ledger is interference from another one: those predicates are C19's there
    L.evaluate(c, PROP, d, extra_preds=(("Step_C13_Idempotency", "multi"), ("Step_C14_RefOutcome", "multi"),
                                        ("Step_Outcome", "multi"), ("Step_C16_Independent", "multi")))
    pred, mut = M.CONTROLS[PROP]
    c.set("negative_control", L.negative_control(d, c.seed, pred, mut))
    # system level (spec/System.tla): the ledger registry and the bucket lifecycle - creation, metadata, bucket
    # deletion / restore, listing - must keep ledgers apart too (frame conditions BucketScope, MetaScope, HidesExactly)
    S.system_stage(c, c.tier, c.seed)


vlib.main(run, PROP, "model_checking")
