#!/usr/bin/env python3
"""Check of property C17.

Two halves, both decided by TLC:
  * current metadata (last write wins, deletes remove, outcomes): the sequential-history pipeline of
    checks/ledger_common.py (spec/TraceLedger.tla: Step_C17_Metadata, Step_C17_MetaOutcome) and its negative control;
  * history: reads as of an instant t under the four combinations of ACCOUNT_/TRANSACTION_METADATA_HISTORY
    (checks/reads_common.py, spec/Reads.tla §2, spec/TraceReads.tla: Step_C17_TxMetaAt, Step_C17_AcctMetaAt,
    Inv_C17_JournalIsMeta and the class predicates Step_C17_TxPitMixedFlags, Step_C17_AcctPitAfterDelete).
"""
import os
import sys

sys.path.insert(0, os.path.dirname(os.path.abspath(__file__)))
sys.path.insert(0, os.path.join(os.path.dirname(os.path.abspath(__file__)), "..", "lib"))
import ledger_common as L
import ledger_mutators as M
import reads_common as R
import vlib

PROP = "C17"


def run(c):
    # current-metadata half
    d = L.build_pipeline(c.tier, c.seed)
    L.evaluate(c, PROP, d)
    pred, mut = M.CONTROLS[PROP]
    # the shared mutator corrupts ledger l1 only; in a multi-ledger case whose metadata write targets another ledger
    # the corruption is rejected by the frame predicate instead: pick another accepted case (the control still has to
    # be rejected by the C17 predicate on some case, else INCONCLUSIVE)
    nc, last = None, None
    for k in range(6):
        try:
            nc = L.negative_control(d, c.seed + 7919 * k, pred, mut)
            break
        except vlib.Inconclusive as e:
            last = e
    if nc is None:
        raise last
    c.set("negative_control_current_metadata", nc)
    seq_traces = c.cov.get("traces_validated_against_impl", 0)
    # history half
    R.run_reads_check(c, PROP)
    c.set("traces_validated_against_impl", seq_traces + c.cov.get("traces_validated_against_impl", 0))
    c.set("sequential_history_traces", seq_traces)


vlib.main(run, PROP, "model_checking")
