#!/usr/bin/env python3
"""C22 - Numscript sends move exactly the requested amount.

TLC checks on every enumerated / sampled program the theorems of spec/Numscript.tla (amounts >= 0,
single asset per send, postings + kept = sent amount, funds available for `*`, no posting for
`kept`, tracked balances = initial + postings, refinement of the amount-level semantics) and
prints each case with the outcome Run prescribes. The harness replays every case through the
real compiler + vm.Machine (postings, metadata, error class, Machine.Balances) in two renderings
(literals / variables) and through MachineNumscriptRuntimeAdapter. Any difference is a violation.
"""
import copy
import numscript_common as nc
import vlib

PREFIX = ("machine-vs-spec/",)


def run(c):
    ctx = nc.Ctx(c)
    try:
        nc.build(ctx)
        path, n = nc.generate_program_cases(ctx)
        summ, _ = nc.run_harness(ctx, "cases", path, "c22", args=["--no-interp"])
        nc.common_evidence(ctx, n, summ)
        cnt = summ["counts"]
        if cnt.get("cases", 0) != n:
            raise vlib.Inconclusive("harness evaluated %s of %s cases" % (cnt.get("cases"), n))
        if cnt.get("nontrivial", 0) < n // 2 or cnt.get("spec_ok", 0) < n // 4:
            raise vlib.Inconclusive("vacuous case stream: %s" % cnt)
        for s in nc.samples_from(path, lambda k: k["exp"]["ok"] and len(k["exp"]["posts"]) >= 2):
            c.sample({"program": s["prog"], "balances": s["bal"], "prescribed_postings": s["exp"]["posts"]})
        nc.report(ctx, "cases", summ, PREFIX)
        others = nc.other_kinds(summ, PREFIX)
        if others:
            c.note("disagreements attributed to other properties (C23/C27): %s" % others)

        # negative control: corrupt one prescribed amount / the prescribed success of accepted cases
        picked = nc.pick_cases(path, lambda k: k["exp"]["ok"] and any(p["n"] > 0 for p in k["exp"]["posts"]), limit=1, stride=7)
        if not picked:
            raise vlib.Inconclusive("no accepted case with a non-zero posting for the negative control")
        good = picked[0][1]
        bad1 = copy.deepcopy(good)
        bad1["exp"]["posts"][0]["n"] += 1
        bad2 = copy.deepcopy(good)
        bad2["exp"]["ok"], bad2["exp"]["err"], bad2["exp"]["posts"] = False, "insufficient", []
        bad3 = copy.deepcopy(good)
        t = bad3["exp"]["tracked"]
        if t:
            bad3["exp"]["fin"][t[0][0]][t[0][1]] += 1
        nc.negative_control(ctx, "cases", [bad1], "c22a", "machine-vs-spec/postings", args=["--no-interp"])
        nc.negative_control(ctx, "cases", [bad2], "c22b", "machine-vs-spec/missing-error", args=["--no-interp"])
        if t:
            nc.negative_control(ctx, "cases", [bad3], "c22c", "machine-vs-spec/balances", args=["--no-interp"])
        c.set("negative_control", "corrupted amount / success / final balance of an accepted case: flagged")
    finally:
        ctx.close()


if __name__ == "__main__":
    vlib.main(run, "C22", "model_checking")
