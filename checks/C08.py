#!/usr/bin/env python3
"""Check of property C08: see checks/ledger_common.py (pipeline) and DESIGN.md §6 C08."""
import os
import sys

sys.path.insert(0, os.path.dirname(os.path.abspath(__file__)))
sys.path.insert(0, os.path.join(os.path.dirname(os.path.abspath(__file__)), "..", "lib"))
import ledger_common as L
import ledger_mutators as M
import vlib

PROP = "C08"


def run(c):
    d = L.build_pipeline(c.tier, c.seed)
    # "the log payloads alone determine the ledger state": replaying the exported logs into a fresh ledger (the
    # export/import histories of the pipeline) must reproduce the source - the same predicate as C11's
    L.evaluate(c, PROP, d, extra_preds=("Step_C11_ImportFaithful",))
    pred, mut = M.CONTROLS[PROP]
    c.set("negative_control", L.negative_control(d, c.seed, pred, mut))


vlib.main(run, PROP, "model_checking")
