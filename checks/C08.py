#!/usr/bin/env python3
"""Check of property C08 (the log is a complete, ordered journal): DESIGN.md §6 C08.

  1. sequential pipeline (ledger_common): Step_C08_OneLog / Inv_C08_Journal on every request of the seeded histories,
     and Step_C11_ImportFaithful on the export/import histories ("the log payloads alone determine the state");
  2. fault sweep (api_common, spec/Faults.tla): "no other operation appends logs" also under faults - a dry run or a
     failed write must append nothing even when an attempt is retried after a transient deadlock, and a successful
     write retried that way appends exactly one log. The sweep is shared with C07 / C31 (same cache entry).
"""
import os
import sys

sys.path.insert(0, os.path.dirname(os.path.abspath(__file__)))
sys.path.insert(0, os.path.join(os.path.dirname(os.path.abspath(__file__)), "..", "lib"))
import api_common as A
import ledger_common as L
import ledger_mutators as M
import vlib

PROP = "C08"


def run(c):
    d, fd = A.together(lambda: L.build_pipeline(c.tier, c.seed), lambda: A.faults_pipeline(c.tier, c.seed))
    # "the log payloads alone determine the ledger state": replaying the exported logs into a fresh ledger (the
    # export/import histories of the pipeline) must reproduce the source - the same predicate as C11's
    L.evaluate(c, PROP, d, extra_preds=("Step_C11_ImportFaithful",))
    pred, mut = M.CONTROLS[PROP]
    controls = [L.negative_control(d, c.seed, pred, mut)]
    # the fault cases are judged exactly as for C07: the database after the request must be one of the states a clean
    # run goes through (which bounds the number of logs appended: none for a dry run / a failed request, one otherwise)
    programs, cases, results, accepted = A.eval_faults(c, "C07", fd)
    controls.append(A.fault_negative_control(c, "C07", programs, cases, results, accepted, c.seed))
    c.set("negative_control", controls)


vlib.main(run, PROP, "model_checking")
