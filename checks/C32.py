#!/usr/bin/env python3
"""Check of property C32 (bulk semantics through POST /v2/{ledger}/_bulk): DESIGN.md §6 C32.

  1. Flow A: spec/MC_Bulk.tla (Bulk = fold of Ledger!Apply) enumerates every bulk of <= 2 (quick) / 3 (thorough)
     elements of an 8-element menu x 2 prefix histories x 6 option combinations, checks the theorems of Bulk
     and prints each case with the prescribed per-element outcomes, final state and events; vh-api replays
     each on a fresh ledger and, on a twin ledger, sends the elements the specification runs one by one
     through their own endpoints; compared: per-element results in element order, final env.Observe state
     (ids by rank), HTTP status class, events, and bulk result == stand-alone result;
  2. Flow B: seeded random bulk histories (1..4 elements, all option combinations) validated by
     spec/TraceBulk.tla; for parallel=true only element-wise outcomes / some execution order are prescribed;
  3. parallel bulk with out-of-order completion forced by the pgmodel statement gate;
  4. negative controls: two prescribed element results swapped (comparator), two recorded results swapped (TLC).
"""
import os
import sys

sys.path.insert(0, os.path.dirname(os.path.abspath(__file__)))
sys.path.insert(0, os.path.join(os.path.dirname(os.path.abspath(__file__)), "..", "lib"))
import api_common as A
import vlib

PROP = "C32"


def run(c):
    d = A.bulk_pipeline(c.tier, c.seed)
    exp, obs, accepted, res = A.eval_bulk(c, d, c.seed)
    controls = [A.bulk_negative_control(exp, obs, accepted, c.seed)]
    bad = set(case for _, _, case in res["fails"])
    controls.append(A.trace_negative_control(os.path.join(d, "trace.ndjson"), bad, c.seed, "Step_C32_Results", A.m_swap_results))
    c.set("negative_control", controls)
    c.assume("pgmodel (harness/pgmodel) stands in for PostgreSQL; parallel bulks run with real goroutine concurrency on pgmodel's row locks "
             "(their schedule is not controlled except in the forced-order scenario), so parallel outcomes are validated against the SET of "
             "executions Bulk!ParallelOutcomes allows")
    c.assume("transaction / log ids are compared by rank in Flow A (sequences have gaps after failed elements; id order is property C16)")


vlib.main(run, PROP, "model_checking")
