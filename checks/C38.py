#!/usr/bin/env python3
"""Check of property C38 (malformed client input yields a 4xx and no effect): DESIGN.md §6 C38.

  spec/Requests.tla is a finite request-shape model: for every write and read route of the v1 and v2 API,
  every position of one valid request (JSON body members, query parameters, path parameters) x type-
  confusion kinds {number, string, bool, null, array, object, huge, negative, ...} and boundary values
  (addresses, assets, dates, integers, names), invalid cursors, invalid filters, malformed raw bodies.
  The route descriptions are generated from the harness's own templates (vh-api requests -describe), TLC
  enumerates the product with the answer class prescribed for each tuple, vh-api instantiates each against
  the in-process router (production options) on a copy of a ledger with history.
  Oracle: never a 5xx, never an empty / non-JSON error body (recovered panic), a 4xx leaves the pg.Dump
  snapshot of every table unchanged, reads never write.  Negative control: an accepted 4xx marked as 500 /
  given a ghost row must be flagged.
"""
import os
import sys

sys.path.insert(0, os.path.dirname(os.path.abspath(__file__)))
sys.path.insert(0, os.path.join(os.path.dirname(os.path.abspath(__file__)), "..", "lib"))
import api_common as A
import vlib

PROP = "C38"


def run(c):
    d = A.requests_pipeline(c.tier, c.seed)
    cases, obs, accepted = A.eval_requests(c, d)
    c.set("negative_control", A.requests_negative_control(cases, obs, accepted, c.seed))
    c.set("rule", "evaluations = instantiated request shapes sent to the router; distinct = distinct (method, path, body) by hash; "
                  "non-trivial = every shape differs from the valid template at exactly one position")
    c.assume("grammar-aware, single-position mutations of one valid request per route; byte-level fuzzing and multi-position mutations are out of scope")


vlib.main(run, PROP, "exploration")
