#!/usr/bin/env python3
"""C30 -- Schemas round-trip without changing meaning.

Spec: spec/Chart.tla.  TLC proves on every generated chart that the schema's meaning (classification
of every address: accepted/rejected + default metadata; templates; query templates) is invariant
under the marshal normal form (ThmRoundTripMeaning), that the normal form is valid and idempotent,
and that an address denotes at most one node (ThmUnique).  Every chart TLC generates is emitted as a
case with the classification the spec prescribes; `vh-chart` renders it to the API's JSON, pushes it
through the real code (unmarshal as the API handler does + NewSchema; marshal/unmarshal twice; the
InsertedSchema log payload through HydrateLog; optionally a store round trip) and, after each stage,
classifies every address with ChartOfAccounts.FindAccountSchema / ValidatePosting /
Transaction.AccountsWithDefaultMetadata and compares templates.  Charts the spec calls invalid must
be rejected by the real unmarshal, valid ones accepted.

usage: python3 checks/C30.py quick|thorough        (VERIF_SEED seeds the sampled part)
       env VERIF_CHART_STORE=<name> adds the store round trip registered under that name in
       harness/chartcase (default "bunjson": bun's value appender + scanner, no database).
"""
import json
import os
import shutil
import sys
import time

sys.path.insert(0, os.path.join(os.path.dirname(os.path.abspath(__file__)), "..", "lib"))
sys.path.insert(0, os.path.dirname(os.path.abspath(__file__)))

import vlib            # noqa: E402
import chart_common as cc  # noqa: E402

PROP = "C30"


def run(c):
    binary = vlib.go_build("vh-chart")
    store = os.environ.get("VERIF_CHART_STORE", "bunjson")
    if store in ("", "none"):
        store = None
    work = vlib.scratch("c30")
    try:
        t0 = time.time()
        groups, runs = cc.run_tlc_plan(c.tier, c.seed, check=c)
        c.set("tlc_wall_s", round(time.time() - t0, 1))
        c.set("theorems_checked", cc.THEOREMS)
        case_file = os.path.join(work, "cases.ndjson")
        n_cases = cc.write_case_file(case_file, groups)
        by_label = {}
        by_id = {}
        for h, cases in groups:
            by_label[h["label"]] = by_label.get(h["label"], 0) + len(cases)
            for cs in cases:
                by_id[cs["id"]] = (h, cs)
        c.set("cases_by_run", by_label)
        if n_cases == 0:
            raise vlib.Inconclusive("TLC emitted no case")

        t1 = time.time()
        summary, results = cc.run_harness(binary, case_file, store=store, timeout=1800)
        c.set("harness_wall_s", round(time.time() - t1, 1))
        c.set("traces_validated_against_impl", summary["cases"])
        c.set("cases_valid", summary["valid_cases"])
        c.set("cases_invalid_charts", summary["invalid_cases"])
        c.set("addresses_classified", summary["addresses_classified"])
        c.set("non_trivial_cases", summary["non_trivial"])
        c.set("non_trivial_rule", "valid chart with at least one accepted and one rejected address of the universe")
        c.set("stages", summary["stages"])
        c.set("store_round_trip", store or "none")
        c.set("disagreements", summary["disagreements"])
        if summary["cases"] != n_cases:
            raise vlib.Inconclusive("harness replayed %d of %d cases" % (summary["cases"], n_cases))

        # vacuity guards
        if summary["non_trivial"] < 100:
            raise vlib.Inconclusive("only %d non-trivial cases" % summary["non_trivial"])
        if summary["invalid_cases"] < 50:
            raise vlib.Inconclusive("only %d invalid-chart cases" % summary["invalid_cases"])
        for st in ("unmarshal", "marshal1", "marshal2", "log") + (("store",) if store else ()):
            if summary["stages"].get(st, 0) < summary["valid_cases"]:
                # a stage that did not run on every valid case must have been reported as a disagreement
                if not summary["disagreements"]:
                    raise vlib.Inconclusive("stage %s ran on %d of %d valid cases without any disagreement reported" % (
                        st, summary["stages"].get(st, 0), summary["valid_cases"]))

        # disagreements = violations of C30 observed on the real code
        c.set("spec_drift_json_form", summary.get("soft_by_sig", {}))
        if summary.get("cases_soft"):
            ex = next((r for r in results if any(d.get("soft") for d in r["disagreements"])), None)
            c.note("SPEC-DRIFT (not a violation): on %d cases the marshalled chart is not the normal form Canon() of "
                   "Chart.tla predicts although its meaning may be unchanged; e.g. %s" % (
                       summary["cases_soft"], ex and [d["detail"][:300] for d in ex["disagreements"] if d.get("soft")][:1]))
        for r in results:
            if not any(not d.get("soft") for d in r["disagreements"]):
                continue
            h, cs = by_id[r["id"]]
            seen_sigs = set()
            for d in r["disagreements"]:
                if d.get("soft") or d["sig"] in seen_sigs:
                    continue
                seen_sigs.add(d["sig"])
                addr_part = (" address " + repr(d.get("address", ""))) if d["sig"].startswith("classify") else ""
                text = "%s [case %s%s%s] %s | schema JSON: %s" % (
                    d["sig"], r["id"], (" stage " + d["stage"]) if d.get("stage") else "", addr_part,
                    d["detail"], r.get("input", ""))
                c.violation(d["sig"], text, dict(engine="vh-chart", store=store or "", header=h, case=cc.strip(cs),
                                                 disagreement=d, input=r.get("input"), marshalled=r.get("marshalled")))
                if len(c.violations) >= 25:
                    break
            if len(c.violations) >= 25:
                c.note("more than 25 violations; stopped recording")
                break

        # samples
        shown = 0
        for h, cases in groups:
            for cs in cases:
                if cs["valid"] and cs["accepted"] and shown < 3 and len(cs["nodes"]) >= 4:
                    c.sample(dict(id=cs["id"], nodes=cs["nodes"], accepted=cs["accepted"][:6], shadowed=cs["shadowed"][:3],
                                  tx=cs["tx"], queries=cs["queries"]))
                    shown += 1
                    break
        for h, cases in groups:
            inv = [cs for cs in cases if not cs["valid"]]
            if inv:
                c.sample(dict(id=inv[0]["id"], nodes=inv[0]["nodes"], defects=inv[0]["defects"]))
                break
        n_shadow = sum(1 for h, cases in groups for cs in cases if cs["valid"] and cs["shadowed"])
        c.set("cases_with_shadowed_addresses", n_shadow)

        # negative control: corrupted expectations must be flagged by the comparator
        negs = cc.negative_controls(groups)
        if len(negs) < 5:
            raise vlib.Inconclusive("could not build the negative controls (%d)" % len(negs))
        neg_file = os.path.join(work, "neg.ndjson")
        cc.write_case_file(neg_file, [(h, [cs]) for _, h, cs, _ in negs])
        nsum, nres = cc.run_harness(binary, neg_file, store=None, timeout=300)
        flagged = {r["id"]: {d["sig"] for d in r["disagreements"]} for r in nres}
        neg_report = []
        for name, h, cs, want in negs:
            got = flagged.get(cs["id"], set())
            ok = any(s.startswith(want) for s in got)
            neg_report.append(dict(control=name, expected_sig=want, flagged=ok))
            if not ok:
                raise vlib.Inconclusive("negative control %s not flagged (wanted %s, got %s)" % (name, want, sorted(got)))
        c.set("negative_controls", neg_report)
        c.assume("regular expressions are abstracted to a finite family of named patterns over a finite segment "
                 "alphabet; the harness verifies the table against regexp.Match for the concrete strings")
        c.assume("the store round trip is '%s' (no SQL executed) unless the lead plugs InsertSchema/FindSchema "
                 "on the database stand-in via chartcase.RegisterStore" % (store or "none"))
    finally:
        shutil.rmtree(work, ignore_errors=True)


if __name__ == "__main__":
    vlib.main(run, PROP, "model_checking")
