#!/usr/bin/env python3
"""Check of property C20: see checks/reads_common.py (pipeline), spec/Reads.tla, spec/TraceReads.tla and DESIGN.md §6 C20."""
import os
import sys

sys.path.insert(0, os.path.dirname(os.path.abspath(__file__)))
sys.path.insert(0, os.path.join(os.path.dirname(os.path.abspath(__file__)), "..", "lib"))
import reads_common as R
import vlib

PROP = "C20"


def run(c):
    R.run_reads_check(c, PROP)


vlib.main(run, PROP, "model_checking")
