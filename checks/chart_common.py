"""Shared machinery of the chart-of-accounts checks (C30, and the chart half of C29).

Specification: spec/Chart.tla (pure operators: Valid, Find, Canon), spec/ChartGen.tla (generator,
theorems, case emission) (+ MC_Chart.tla, Chart_exh.cfg / Chart_exh4.cfg / Chart_def.cfg / Chart_def2.cfg /
Chart_sim.cfg / Chart_simL.cfg).  TLC checks the theorems of the spec on every generated chart and prints one CASE
per chart with the outcome the spec prescribes; the Go engine `vh-chart` (harness/chartcase) replays
the cases through the real schema code.

Case format (what gen_chart_cases returns, and what is written one-JSON-per-line to the case file
`vh-chart --cases` reads; a header line precedes the cases it applies to):

  header = {"kind": "header",
            "addresses": [["a"], ["a","7"], ...],      # the address universe (lists of segments)
            "alphabet": [...segments...], "fixed": [...], "varkeys": ["$v"], "badnames": [...],
            "patmatch": {"digits": ["7","42"], ...},   # abstract pattern name -> alphabet segments it matches
            "badpatterns": [...], "maxnodes": n, "maxdepth": n, "maxaddrlen": n,
            "label": "exh"|"def"|"def2"|"sim"|"simL"}         # which TLC run produced it (added here)

  case   = {"kind": "chart", "id": "<label>-<sha1[:12]>", "label": ..., "valid": bool,
            "nodes":  [{"p": [<json keys from the root>], "self": "absent"|"empty"|"junk",
                        "pat": "none"|"digits"|"alt"|"hasdigit"|"badre",
                        "props": {"meta": bool,               # ".metadata" key present
                                  "kv": {"k1": v, "k2": v},   # v: "_" undeclared, "_nodefault" -> {},
                                                              #    "_null" -> {"default": null}, else default
                                  "rules": bool}}, ...],      # p == [] is the root object
            "canon":  [... same shape: the normal form marshal must produce (valid charts) ...],
            "defects": [[rule, path], ...],                   # non-empty iff not valid (exactly one)
            "accepted": [{"a": [segments], "meta": {"k1": v|"_", "k2": v|"_"}}, ...],
                                                              # all other header addresses are rejected
            "shadowed": [[segments], ...],   # rejected only because a fixed sibling shadows the variable
            "tx": [template ids], "queries": [query template ids],
            "header": <the header dict (shared object; dropped when written to a file)>}

Concrete rendering (done by the Go side, harness/chartcase): pattern names -> regexps
(`digits` = ^[0-9]+$, `alt` = ^(a|x)$, `hasdigit` = [0-9], `badre` = [[ ), variable key "$v" as is,
address = ":".join(segments).  `case_addresses(case)` expands a case to
{address: {"accepted": bool, "meta": {key: default}}} over the whole address universe, which is
what a C29 harness needs to decide "posting accepted by chart".
"""
import hashlib
import json
import os
import concurrent.futures

import vlib

THEOREMS = ["TypeOK", "ThmRoundTripMeaning", "ThmCanonValid", "ThmCanonIdem", "ThmUnique",
            "ThmFixedPathAccepted"]

# tier -> list of TLC runs.  kind "bfs": exhaustive; "sim": -simulate random walks, `procs`
# independent single-worker TLC processes whose seeds derive from VERIF_SEED (reproducible).
PLAN = {
    # steps of the same phase run concurrently, phases run one after the other
    "quick": [
        dict(label="exh", kind="bfs", cfg="Chart_exh.cfg", timeout=500, workers=12, phase=0),
        dict(label="def", kind="bfs", cfg="Chart_def.cfg", timeout=400, workers=6, phase=1),
        dict(label="def2", kind="bfs", cfg="Chart_def2.cfg", timeout=400, workers=2, phase=1),
        dict(label="sim", kind="sim", cfg="Chart_sim.cfg", procs=4, num=30, depth=12, timeout=500, phase=2),
    ],
    "thorough": [
        dict(label="exh", kind="bfs", cfg="Chart_exh.cfg", timeout=1200, workers=12, phase=0),
        dict(label="def", kind="bfs", cfg="Chart_def.cfg", timeout=900, workers=6, phase=1),
        dict(label="def2", kind="bfs", cfg="Chart_def2.cfg", timeout=900, workers=2, phase=1),
        dict(label="sim", kind="sim", cfg="Chart_sim.cfg", procs=4, num=300, depth=12, timeout=1500, phase=2),
        dict(label="simL", kind="sim", cfg="Chart_simL.cfg", procs=4, num=80, depth=13, timeout=1800, phase=2),
        # every valid chart with <= 4 nodes (depth <= 4): theorems only, no case emission
        dict(label="exh4", kind="bfs", cfg="Chart_exh4.cfg", timeout=3000, workers=14, emit=False, phase=3),
    ],
}


def _case_id(label, case):
    core = dict(nodes=sorted(case["nodes"], key=lambda n: n["p"]), tx=sorted(case.get("tx") or []),
                queries=sorted(case.get("queries") or []))
    return "%s-%s" % (label, hashlib.sha1(json.dumps(core, sort_keys=True).encode()).hexdigest()[:12])


def _run_one(step, seed_i=None):
    kw = dict(timeout=step["timeout"], deadlock=False)
    if step["kind"] == "sim":
        r = vlib.tlc("MC_Chart", cfg=step["cfg"], workers=1, simulate="num=%d" % step["num"],
                     depth=step["depth"], seed=seed_i, **kw)
    else:
        r = vlib.tlc("MC_Chart", cfg=step["cfg"], workers=step.get("workers", 12), **kw)
    return r


def run_tlc_plan(tier, seed, check=None, only=None):
    """Run the TLC plan of a tier. Returns (groups, runs) where groups is a list of
    (header, [cases]) and runs a list of (label, TLCResult). Raises vlib.Inconclusive when TLC fails
    (a violated theorem of the spec alone is a spec problem, never a verdict about the code)."""
    groups, runs = [], []
    steps = [st for st in PLAN[tier] if not only or st["label"] in only]
    done = {}
    for phase in sorted({st.get("phase", 0) for st in steps}):
        tasks = []
        for si, st in enumerate(steps):
            if st.get("phase", 0) != phase:
                continue
            if st["kind"] == "sim":
                for i in range(st["procs"]):
                    tasks.append((si, i, (seed * 1000003 + 7919 * i + 17 + 104729 * si) % (2 ** 31 - 1)))
            else:
                tasks.append((si, 0, None))
        with concurrent.futures.ThreadPoolExecutor(max_workers=max(1, len(tasks))) as ex:
            for (si, i, _), r in zip(tasks, ex.map(lambda t: _run_one(steps[t[0]], t[2]), tasks)):
                done.setdefault(si, []).append(r)
    for si, step in enumerate(steps):
        results = done.get(si, [])
        for i, r in enumerate(results):
            label = step["label"] if len(results) == 1 else "%s.%d" % (step["label"], i)
            runs.append((label, r))
            if check is not None:
                check.add_tlc(r, label)
            if r.violations:
                raise vlib.Inconclusive("Chart.tla: theorem violated on the spec alone (%s, %s): %s\n%s" % (
                    label, step["cfg"], r.violations, r.out[-3000:]))
            if not r.ok:
                raise vlib.Inconclusive("TLC failed (%s, %s): rc=%s %s\n%s" % (
                    label, step["cfg"], r.rc, r.error, r.out[-3000:]))
            if step["kind"] == "sim" and r.generated == 0:
                raise vlib.Inconclusive("TLC simulation produced no states (%s)" % label)
            parsed = vlib.tlc_cases(r.out)
            headers = [x for x in parsed if x.get("kind") == "header"]
            cases = [x for x in parsed if x.get("kind") == "chart"]
            if len(headers) != 1:
                raise vlib.Inconclusive("expected exactly one header from TLC (%s), got %d" % (label, len(headers)))
            n_lines = sum(1 for ln in r.out.splitlines() if ln.startswith('<<"CASE", '))
            if n_lines != len(parsed):
                raise vlib.Inconclusive("%d CASE lines but %d parsed (%s): interleaved output?" % (
                    n_lines, len(parsed), label))
            if step.get("emit", True) is False:
                cases = []
            elif step["kind"] == "bfs" and len(cases) != r.distinct:
                raise vlib.Inconclusive("%s: %d distinct states but %d cases emitted" % (label, r.distinct, len(cases)))
            h = headers[0]
            h["label"] = step["label"]
            if not isinstance(h.get("patmatch"), dict):
                h["patmatch"] = {}
            seen = set()
            out = []
            for c in cases:
                c["label"] = step["label"]
                c["id"] = _case_id(step["label"], c)
                if c["id"] in seen:
                    continue
                seen.add(c["id"])
                c["header"] = h
                out.append(c)
            out.sort(key=lambda c: c["id"])
            groups.append((h, out))
    return groups, runs


def gen_chart_cases(tier, seed, check=None, only=None):
    """All chart cases of a tier as a flat list (see the module docstring for the format). Every case
    carries its header under "header". `only` restricts to run labels, e.g. {"exh"}."""
    groups, _ = run_tlc_plan(tier, seed, check=check, only=only)
    seen, out = set(), []
    for _, cases in groups:
        for c in cases:
            if c["id"] not in seen:
                seen.add(c["id"])
                out.append(c)
    return out


def case_addresses(case):
    """{address string: {"accepted": bool, "meta": {key: default}}} for every address of the case's
    header universe (valid charts only)."""
    acc = {":".join(a["a"]): {k: v for k, v in a["meta"].items() if v != "_"} for a in case.get("accepted") or []}
    out = {}
    for a in case["header"]["addresses"]:
        s = ":".join(a)
        out[s] = dict(accepted=s in acc, meta=acc.get(s, {}))
    return out


def strip(case):
    return {k: v for k, v in case.items() if k != "header"}


def write_case_file(path, groups):
    """groups: list of (header, [cases]). One JSON per line; a header precedes its cases."""
    n = 0
    with open(path, "w") as fh:
        for h, cases in groups:
            fh.write(json.dumps(h, separators=(",", ":")) + "\n")
            for c in cases:
                fh.write(json.dumps(strip(c), separators=(",", ":")) + "\n")
                n += 1
    return n


def run_harness(binary, case_file, store=None, timeout=900, verbose=False):
    """Run vh-chart. Returns (summary, [result dicts of cases with disagreements (all if verbose)])."""
    cmd = [binary, "--cases", case_file]
    if store:
        cmd += ["--store", store]
    if verbose:
        cmd += ["--verbose"]
    rc, out = vlib.run(cmd, timeout=timeout)
    summary, results = None, []
    for line in out.splitlines():
        line = line.strip()
        if not line.startswith("{"):
            continue
        try:
            obj = json.loads(line)
        except ValueError:
            continue
        if "summary" in obj:
            summary = obj["summary"]
        elif "result" in obj:
            results.append(obj["result"])
    if summary is None:
        raise vlib.Inconclusive("vh-chart produced no summary (rc=%s): %s" % (rc, out[-2000:]))
    if summary.get("header_errors"):
        raise vlib.Inconclusive("spec abstraction not faithful to the concrete strings: %s" % summary["header_errors"][:5])
    if summary.get("selftest_errors"):
        raise vlib.Inconclusive("vh-chart self test failed: %s" % summary["selftest_errors"][:5])
    if rc != 0:
        raise vlib.Inconclusive("vh-chart exit %s: %s" % (rc, out[-2000:]))
    return summary, results


def negative_controls(groups):
    """Corrupted copies of accepted cases that the comparator must flag. Returns a list of
    (name, header, case, expected_sig_prefix)."""
    out = []
    valid_nt = None
    invalid = None
    for h, cases in groups:
        for c in cases:
            if c["valid"] and valid_nt is None and c["accepted"] and len(c["accepted"]) < len(h["addresses"]) \
                    and any(v != "_" for a in c["accepted"] for v in a["meta"].values()):
                valid_nt = (h, c)
            if not c["valid"] and invalid is None:
                invalid = (h, c)
    if valid_nt is None:
        return out
    h, c = valid_nt
    base = json.loads(json.dumps(strip(c)))
    # 1. an accepted address is expected to be rejected
    c1 = json.loads(json.dumps(base))
    c1["id"] = "neg-drop-accepted"
    dropped = c1["accepted"].pop(0)
    out.append(("drop-accepted:" + ":".join(dropped["a"]), h, c1, "classify:unmarshal:accept-mismatch:expected-reject"))
    # 2. a rejected address is expected to be accepted
    accset = {":".join(a["a"]) for a in base["accepted"]}
    rej = [a for a in h["addresses"] if ":".join(a) not in accset][0]
    c2 = json.loads(json.dumps(base))
    c2["id"] = "neg-add-accepted"
    c2["accepted"].append(dict(a=rej, meta={k: "_" for k in base["accepted"][0]["meta"]}))
    out.append(("add-accepted:" + ":".join(rej), h, c2, "classify:unmarshal:accept-mismatch:expected-accept"))
    # 3. the default metadata of an accepted address is changed
    c3 = json.loads(json.dumps(base))
    c3["id"] = "neg-meta"
    for a in c3["accepted"]:
        ks = [k for k, v in a["meta"].items() if v != "_"]
        if ks:
            a["meta"][ks[0]] = "corrupted"
            break
    out.append(("corrupt-meta", h, c3, "classify:unmarshal:meta-mismatch"))
    # 4. the normal form is changed (.self dropped / added on a node)
    c4 = json.loads(json.dumps(base))
    c4["id"] = "neg-canon"
    for n in c4["canon"]:
        if n["p"]:
            n["self"] = "absent" if n["self"] == "empty" else "empty"
            # a leaf with ".self": {} renders differently from the real marshal output, an inner node
            # without ".self" as well
            break
    out.append(("corrupt-canon", h, c4, "canon:marshal1"))
    # 5. a valid chart is expected to be rejected
    c5 = json.loads(json.dumps(base))
    c5["id"] = "neg-valid-as-invalid"
    c5["valid"] = False
    c5["defects"] = [["bad-name", c5["nodes"][0]["p"]]]
    out.append(("valid-as-invalid", h, c5, "invalid-accepted:bad-name"))
    if invalid is not None:
        h2, ci = invalid
        c6 = json.loads(json.dumps(strip(ci)))
        c6["id"] = "neg-invalid-as-valid"
        c6["valid"] = True
        c6["defects"] = []
        c6["canon"] = c6["nodes"]
        out.append(("invalid-as-valid", h2, c6, "valid-rejected"))
    return out
