#!/usr/bin/env python3
"""Check of property C07 (failed and dry-run writes leave no trace): DESIGN.md §6 C07.

  1. sequential pipeline (ledger_common): Step_C07_NoTrace on every naturally failing request, idempotent
     replay and dry run of the seeded histories (TraceLedger), plus the bounded model MC_Ledger;
  2. fault sweep: spec/Faults.tla instantiated with the statement programs MEASURED on the real code; TLC
     enumerates every (request, fault position, error kind) with the outcome Faults prescribes; vh-api
     replays each on a copy of the ledger (pg.Fault on the worker name) and reports full-snapshot equality
     (pg.Dump of every table of every schema), API observation equality, listener calls;
  3. requests that make nothing durable inside bulks / with a failing commit (TraceBulk Step_C07_RequestNoTrace);
  4. negative controls: a ghost metadata key in a recorded trace (TLC must reject), a ghost row in an
     after-snapshot (the comparator must reject).
"""
import os
import sys

sys.path.insert(0, os.path.dirname(os.path.abspath(__file__)))
sys.path.insert(0, os.path.join(os.path.dirname(os.path.abspath(__file__)), "..", "lib"))
import api_common as A
import ledger_common as L
import ledger_mutators as M
import vlib

PROP = "C07"


def run(c):
    d, fd, ed = A.together(lambda: L.build_pipeline(c.tier, c.seed), lambda: A.faults_pipeline(c.tier, c.seed), lambda: A.events_pipeline(c.tier, c.seed))
    L.evaluate(c, PROP, d)
    pred, mut = M.CONTROLS[PROP]
    controls = [L.negative_control(d, c.seed, pred, mut)]
    programs, cases, results, accepted = A.eval_faults(c, PROP, fd)
    controls.append(A.fault_negative_control(c, PROP, programs, cases, results, accepted, c.seed))
    # requests of the C31 matrix that make nothing durable (failing element of a bulk, failing commit...)
    import json
    eres = json.load(open(os.path.join(ed, "result.json")))
    cells = {x["id"]: x for x in json.load(open(os.path.join(ed, "cells.json")))}
    seen = set()
    for pred, ln, case in eres["fails"]:
        if L.prop_of(pred) == PROP and case not in seen:
            seen.add(case)
            cc = cells.get(case, {})
            c.violation("request:%s" % cc.get("cell"), "predicate %s of spec/TraceBulk.tla fails on matrix cell %s (line %d): a request that made nothing durable changed the observation"
                        % (pred, cc.get("cell"), ln), dict(kind="reqcase", cell=cc.get("cell"), case=dict(case=case, scale="1", reqs=[dict(k="single", l="l1", now=o["now"], els=[o]) for o in cc.get("prefix", [])] + [cc.get("req")])))
    c.add("evaluations", eres["lines"])
    c.set("rule", "evaluations = (request, fault position, error kind) cases replayed + request lines of the C31 matrix checked by Step_C07_RequestNoTrace; "
                  "distinct = distinct (catalogue request, ledger context, feature set, dryRun, position, kind); non-trivial = the fault was injected "
                  "inside the request's measured program (every position incl. COMMIT) or the case is the clean / dry-run baseline")
    c.set("negative_control", controls)
    c.assume("fault model: a failing statement or COMMIT returns the SQLSTATE (08006, 40001, 57014; thorough adds 40P01) without executing, "
             "a cancelled context additionally cancels the request context; pgmodel aborts the open transaction as PostgreSQL does")


vlib.main(run, PROP, "fault_enumeration")
