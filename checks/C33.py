#!/usr/bin/env python3
"""C33 - Replication delivers every log, in order, despite failures.

Specification: spec/Replication.tla (pipeline loop, subscriber goroutine, Manager operations under
mu, exporter failures, in-flight Accept, concurrent log production), checked exhaustively by TLC:
safety invariants, liveness under weak fairness (no constraint, no VIEW), negative-control cfgs that
MUST fail.  The faithful model has JoinSubscriber = TRUE (since /repo 9ae9635 a stop waits for the
subscriber of the stopped pipeline).  The model of the code before that repair (JoinSubscriber = FALSE)
is kept as negative control: TLC must refute "persisted <= acknowledged since the last reset", "after a
reset everything is exported again" (safety and liveness form) on it, and the two schedules it prints
are forced on the real code, where they must not be reproducible (if they are, the late
StorePipelineState is back: signature reset-vs-subscriber-store/late-StorePipelineState).

Count-based liveness on real executions (harness oracle + TraceReplication.tla, same rule): refusals of a
HEALTHY exporter (it honours the context it is given, as drivers.Batcher does) are not charged to the
scenario's failure budget; 5 of them in a row to one pipeline instance, with no accepted batch in between,
is a violation (signature no-progress-after-failures/healthy-exporter-refused).  Attempts are counted,
never time: a bounded wait that expires stays Inconclusive.

Binding to the code (harness/repl, binary vh-repl; the REAL replication.Manager / PipelineHandler /
DriverFacade over an in-memory replication.Storage and a recording drivers.Driver):
  * Flow B: seeded random scenarios -> NDJSON traces -> TraceReplication.tla (every logged event must be
    an enabled action with the logged values; silent internal steps; POSTCONDITION high-water mark;
    the invariants evaluated on every state of every trace), plus the Go observation oracle.
  * Flow A: schedules printed by TLC (counterexamples of the schedule-search cfgs, negative-control
    counterexamples, and, in the thorough tier, behaviours sampled with -simulate) are forced on the
    real code through gates on the storage / exporter calls; their traces are validated the same way.
  * Negative control on the binding: one recorded field of an accepted trace is corrupted and TLC must
    reject it.
A TLC counterexample on the model alone is never a verdict; a verdict needs the real code to show it.
"""
import concurrent.futures as cf
import hashlib
import json
import os
import re
import shutil
import time

import vlib

SIG_RESET = "reset-vs-subscriber-store/late-StorePipelineState"
SIG_NOPROGRESS = "no-progress-after-failures/healthy-exporter-refused"
INTERNAL_KINDS = ("DriverStart", "DriverStop", "ListLogsErr")
TRACE_FIELDS = ("k", "ep", "x", "y", "ids", "ok", "name")


# ----------------------------------------------------------------------------- storage model guard

# harness/repl/world.go re-implements these four functions of internal/storage/system/store.go in memory
# (there is no Postgres here).  The guard fingerprints the query-building calls only (NewUpdate / Model /
# Table / Set / Where / Returning / Scan / Exec with their arguments); error mapping and the like may
# change freely.  If a query changes, the in-memory model must be reviewed first: the check refuses to
# give a verdict rather than judging the code against an outdated storage model.
STORE_FUNCS = {
    "StorePipelineState": "2ecddf83f8fecbe0",   # UPDATE pipelines SET last_log_id = ? WHERE id = ?
    "UpdatePipeline": "fe0f8141fab64138",       # UPDATE _system.pipelines SET k = v.., version = version + 1 WHERE id = ? RETURNING *
    "GetPipeline": "e52f3240b4ec026a",          # SELECT .. WHERE id = ?
    "ListEnabledPipelines": "99d92255717bd57f",  # SELECT .. WHERE enabled
}
_QUERY_CALL = re.compile(r"\.(?:NewSelect|NewUpdate|NewInsert|NewDelete|Model|Table|Set|Where|Returning|Scan|Exec)\((?:[^()]|\([^()]*\))*\)")


def check_storage_model():
    path = os.path.join(vlib.REPO, "internal", "storage", "system", "store.go")
    try:
        src = open(path).read()
    except OSError as e:
        raise vlib.Inconclusive("cannot read %s: %s" % (path, e))
    for name, want in STORE_FUNCS.items():
        m = re.search(r"func \(d \*DefaultStore\) %s\(.*?\n}\n" % name, src, re.S)
        if not m:
            raise vlib.Inconclusive("system/store.go: %s not found; review harness/repl/world.go" % name)
        calls = " ".join(x.group(0) for x in _QUERY_CALL.finditer(re.sub(r"\s+", "", m.group(0))))
        got = hashlib.sha1(calls.encode()).hexdigest()[:16]
        if got != want:
            raise vlib.Inconclusive("system/store.go: the query of %s changed (%s: %s); review the in-memory storage of "
                                    "harness/repl/world.go and update STORE_FUNCS in checks/C33.py" % (name, got, calls))


# ----------------------------------------------------------------------------- TLC helpers

def cfg_from(base, **over):
    """Text of spec/<base> with `Name = value` constant lines overridden."""
    txt = open(os.path.join(vlib.SPEC, base)).read()
    for k, v in over.items():
        txt, n = re.subn(r"(?m)^(\s*%s\s*=\s*).*$" % re.escape(k), lambda m: m.group(1) + str(v), txt)
        if n != 1:
            raise vlib.Inconclusive("cfg %s: constant %s not found" % (base, k))
    return txt


def temporal_violated(r):
    return bool(re.search(r"Temporal propert(y|ies) .*violated", r.out))


def run_tlc_job(job):
    name, module, cfgtxt, kw = job
    cfgname = "job_%s.cfg" % name
    r = vlib.tlc(module, cfgname, extra_files=[(cfgname, None, cfgtxt)], **kw)
    return name, r


def tlc_jobs(tier):
    """(name, module, cfg text, kwargs, expectation).  expectation: hold | must_fail:<inv> | finding"""
    q = tier == "quick"
    J = []
    W = dict(workers=4, timeout=1500 if q else 2700)
    if q:
        # measured (distinct states): 46,768 / 516,857 / 22,329
        J.append(("safety_L4_F1", "Replication", cfg_from("Replication_safety.cfg", MaxLogs=4), W, "hold"))
        J.append(("safety_L3_F1_late", "Replication", cfg_from("Replication_safety.cfg", LateAccepts="TRUE"), W, "hold"))
        J.append(("live_L3_F1", "Replication", cfg_from("Replication_live.cfg", MaxLogs=3), W, "hold"))
    else:
        # measured (distinct states): ~73k / 2,496,686 / 72,690 / 798,856
        J.append(("safety_L4_F2", "Replication", cfg_from("Replication_safety.cfg", MaxLogs=4, MaxFail=2), W, "hold"))
        J.append(("safety_L4_F2_late", "Replication", cfg_from("Replication_safety.cfg", MaxLogs=4, MaxFail=2, LateAccepts="TRUE"), dict(workers=6, timeout=2700), "hold"))
        J.append(("live_L4_F2", "Replication", cfg_from("Replication_live.cfg", MaxLogs=4, MaxFail=2), W, "hold"))
        J.append(("live_L3_F2_late", "Replication", cfg_from("Replication_live.cfg", MaxLogs=3, MaxFail=2, LateAccepts="TRUE"), dict(workers=5, timeout=2700), "hold"))
    # the model of the code before /repo 9ae9635 (JoinSubscriber = FALSE): every one of these MUST fail, and the two
    # schedules are forced on the real code, where they must not be reproducible any more
    J.append(("live_reset", "Replication", cfg_from("Replication_live_reset.cfg", MaxRestarts=0), dict(workers=2, timeout=1500), "must_fail_temporal"))
    small = dict(workers=1, timeout=600)
    J.append(("find_persisted", "Replication", cfg_from("Replication_find_persisted.cfg"), small, "must_fail:InvPersistedLeAckedSinceResetE"))
    J.append(("find_gap", "Replication", cfg_from("Replication_find_gap.cfg"), small, "must_fail:InvNoGapSinceResetE"))
    J.append(("nc_subahead", "Replication", cfg_from("Replication_nc_subahead.cfg"), small, "must_fail:InvPersistedLeAckedE"))
    J.append(("nc_skiplog", "Replication", cfg_from("Replication_nc_skiplog.cfg"), small, "must_fail:InvBatchContiguousE"))
    J.append(("nc_advfail", "Replication", cfg_from("Replication_nc_advfail.cfg"), small, "must_fail:InvNoGapEver"))
    return J


def page_size_of(cfgtxt):
    m = re.search(r"PageSizes\s*=\s*\{\s*(\d+)\s*\}", cfgtxt)
    if not m:
        raise vlib.Inconclusive("schedule cfg without a singleton PageSizes")
    return int(m.group(1))


# ----------------------------------------------------------------------------- harness

def run_vh(binp, args, timeout):
    rc, out = vlib.run([binp] + args, timeout=timeout, env=vlib.go_env())
    if rc != 0:
        raise vlib.Inconclusive("vh-repl %s failed (rc=%s): %s" % (args[0], rc, out[-1500:]))


def load_run(prefix):
    """-> list of scenario dicts (result + events) for one vh-repl run."""
    res = [json.loads(l) for l in open(prefix + ".res") if l.strip()]
    evs = {}
    for l in open(prefix + ".ev"):
        if l.strip():
            e = json.loads(l)
            evs.setdefault(e["t"], []).append(e)
    for r in res:
        r["events"] = evs.get(r["t"], [])
        if len(r["events"]) != r["nEvents"]:
            raise vlib.Inconclusive("harness output inconsistent for scenario %s" % r["id"])
    return res


def random_runs(binp, work, seed, total, procs):
    per = (total + procs - 1) // procs
    jobs = []
    for k in range(procs):
        prefix = os.path.join(work, "rnd%d" % k)
        jobs.append((prefix, ["random", "-seed", str(seed * 64 + k), "-n", str(per), "-out", prefix + ".ev", "-results", prefix + ".res"]))
    with cf.ThreadPoolExecutor(max_workers=procs) as ex:
        list(ex.map(lambda j: run_vh(binp, j[1], 900), jobs))
    out = []
    for k, (prefix, _) in enumerate(jobs):
        for r in load_run(prefix):
            r["uid"] = "rnd%d.%d" % (k, r["t"])
            out.append(r)
    return out


def schedule_run(binp, work, name, scheds, procs=1):
    """Replay schedules through the gates (in `procs` parallel processes)."""
    chunks = [scheds[i::procs] for i in range(procs) if scheds[i::procs]]

    def one(k):
        prefix = os.path.join(work, "%s_%d" % (name, k))
        with open(prefix + ".json", "w") as fh:
            json.dump(chunks[k], fh)
        run_vh(binp, ["schedule", "-in", prefix + ".json", "-out", prefix + ".ev", "-results", prefix + ".res"], 1500)
        out = load_run(prefix)
        if len(out) != len(chunks[k]):
            raise vlib.Inconclusive("vh-repl schedule: %d results for %d schedules" % (len(out), len(chunks[k])))
        for r, s in zip(out, chunks[k]):
            r["uid"] = "%s%d.%d" % (name, k, r["t"])
            r["schedule"] = s
        return out

    with cf.ThreadPoolExecutor(max_workers=max(1, len(chunks))) as ex:
        parts = list(ex.map(one, range(len(chunks))))
    return [r for p in parts for r in p]


# ----------------------------------------------------------------------------- trace validation

def tlc_events(sc):
    """Events of one scenario in the form TraceReplication.tla reads: informational events removed,
    repeated identical empty polls collapsed, cut at a failed manager operation."""
    out = []
    last_empty = {}
    for e in sc["events"]:
        k = e["k"]
        if k in INTERNAL_KINDS:
            continue
        if k == "Ret" and not e["ok"]:
            break
        if k == "ListLogs":
            if not e["ids"]:
                key = (e["ep"], e["x"], e["ok"])
                if last_empty.get(e["ep"]) == key:
                    continue
                last_empty[e["ep"]] = key
            else:
                last_empty.pop(e["ep"], None)
        out.append({f: e[f] for f in TRACE_FIELDS})
    return out


def validate_batch(c, label, scenarios, work, max_rounds=6):
    """Run TraceReplication on the concatenation of the scenarios' traces.
    -> (accepted uids, rejected {uid: event}, invfail {uid: set(invariant)})"""
    todo = list(scenarios)
    accepted, rejected, invfail = [], {}, {}
    rounds = 0
    while todo:
        rounds += 1
        if rounds > max_rounds:
            # many rejected traces: the ones found are reported; the rest of the batch is not validated
            c.note("trace validation %s: stopped after %d rejected traces, %d traces left unvalidated" % (label, len(rejected), len(todo)))
            break
        lines, owner = [], []
        for sc in todo:
            evs = tlc_events(sc)
            for e in evs:
                lines.append(json.dumps(e))
                owner.append(sc["uid"])
        if not lines:
            break
        r = vlib.tlc("TraceReplication", "TraceReplication.cfg", workers=1, timeout=1800,
                     extra_files=[("trace.ndjson", None, "\n".join(lines) + "\n")])
        c.add_tlc(r, "trace:%s#%d" % (label, rounds))
        if r.error == "timeout":
            raise vlib.Inconclusive("trace validation %s timed out" % label)
        for m in re.finditer(r'<<"INVFAIL", "(\w+)", (\d+)>>', r.out):
            idx = int(m.group(2))
            if 1 <= idx <= len(owner):
                invfail.setdefault(owner[idx - 1], set()).add(m.group(1))
        m = re.search(r'<<"REJECTED", (\d+), (\d+)>>', r.out)
        if m:
            idx = int(m.group(1))
            if int(m.group(2)) != len(lines) or not (1 <= idx <= len(lines)):
                raise vlib.Inconclusive("trace validation %s: inconsistent REJECTED line" % label)
            bad = owner[idx - 1]
            rejected[bad] = json.loads(lines[idx - 1])
            # everything before the rejected scenario was fully explained
            keep = []
            seen_bad = False
            for sc in todo:
                if sc["uid"] == bad:
                    seen_bad = True
                elif seen_bad:
                    keep.append(sc)
                else:
                    accepted.append(sc["uid"])
            todo = keep
            continue
        if r.rc != 0 or "Model checking completed" not in r.out:
            raise vlib.Inconclusive("trace validation %s: TLC failed: %s\n%s" % (label, r.error, r.out[-1500:]))
        accepted.extend(sc["uid"] for sc in todo)
        todo = []
    return accepted, rejected, invfail


def split(lst, n):
    k = max(1, (len(lst) + n - 1) // n)
    return [lst[i:i + k] for i in range(0, len(lst), k)]


def validate_parallel(c, label, scenarios, work, parts):
    chunks = split(scenarios, parts)
    acc, rej, inv = [], {}, {}
    with cf.ThreadPoolExecutor(max_workers=len(chunks) or 1) as ex:
        futs = [ex.submit(validate_batch, c, "%s/%d" % (label, i), ch, work) for i, ch in enumerate(chunks)]
        for f in futs:
            a, r, i = f.result()
            acc += a
            rej.update(r)
            inv.update(i)
    return acc, rej, inv


# ----------------------------------------------------------------------------- verdicts

ORACLE_TO_INV = {
    "InvBatchContiguous": "InvBatchContiguous",
    "InvNoGapSinceReset": "InvNoGapSinceReset",
    "InvPersistedLeAcked": "InvPersistedLeAcked",
    "InvPersistedLeAckedSinceReset": "InvPersistedLeAckedSinceReset",
    "InvProgressAfterFailures": "InvProgressAfterFailures",
}


def fmt_events(evs, limit=60):
    out = []
    for e in evs[:limit]:
        if e["k"] in INTERNAL_KINDS:
            continue
        out.append("%d %s ep=%d x=%d y=%d ids=%s ok=%s %s" % (e["seq"], e["k"], e["ep"], e["x"], e["y"], e["ids"], e["ok"], e["name"]))
    return out


def sig_of(sc, rejected_ev):
    findings = sc.get("findings") or []
    if any(f.get("staleStoreAfterReset") for f in findings):
        return SIG_RESET
    if any(f["oracle"] == "InvProgressAfterFailures" for f in findings):
        return SIG_NOPROGRESS
    if findings:
        return "%s/%s" % (findings[0]["oracle"], sc["kind"])
    if rejected_ev is not None:
        return "trace-not-a-behaviour/%s" % rejected_ev["k"]
    return "tlc-invariant/%s" % sc["kind"]


def cross_check(sc, tlc_inv, rejected_ev, validated):
    """The Go oracle and TLC evaluate the same predicates on the same events; InvStartPos is the
    TLC-side early form of InvNoGapSinceReset (a start position beyond the acknowledged prefix)."""
    findings = sc.get("findings") or []
    go_invs = set(ORACLE_TO_INV[f["oracle"]] for f in findings if f["oracle"] in ORACLE_TO_INV)
    tl = set(tlc_inv) - {"InvStartPos", "InvLastLeAcked"}
    if rejected_ev is None and sc["uid"] in validated and tl != go_invs:
        raise vlib.Inconclusive("scenario %s: Go oracle %s and TLC invariants %s disagree" % (sc["uid"], sorted(go_invs), sorted(tlc_inv)))


def reproduce(binp, work, sc):
    """Run the scenario again; -> (set of oracle names seen, replay object)."""
    tag = "repro_" + sc["uid"].replace(".", "_").replace("/", "_")
    if sc["kind"] == "schedule":
        again = schedule_run(binp, work, tag, [sc["schedule"]])[0]
        rep = set(f["oracle"] for f in again.get("findings") or [])
        replay = dict(engine="vh-repl", how=".build/vh-repl schedule -in <file containing [schedule]>", schedule=sc["schedule"])
    else:
        prefix = os.path.join(work, tag)
        run_vh(binp, ["one", "-n", "25", "-params", json.dumps(sc["params"]), "-out", prefix + ".ev", "-results", prefix + ".res"], 600)
        rep = set()
        for r in load_run(prefix):
            rep |= set(f["oracle"] for f in r.get("findings") or [])
        replay = dict(engine="vh-repl", how=".build/vh-repl one -n 25 -params '<params>'", params=sc["params"])
    return rep, replay


def report(c, binp, work, flagged, inv, rej, validated):
    """Group the flagged scenarios by signature; reproduce one representative per signature (schedules
    first: they are deterministic) and report it."""
    groups = {}
    for sc in flagged:
        cross_check(sc, inv.get(sc["uid"], set()), rej.get(sc["uid"]), validated)
        groups.setdefault(sig_of(sc, rej.get(sc["uid"])), []).append(sc)
    unreproduced, reported = [], 0
    for sig, scs in sorted(groups.items())[:6]:
        scs.sort(key=lambda s: (s["kind"] != "schedule", -len(s.get("findings") or []), len(s["events"])))
        chosen, replay = None, None
        for sc in scs[:4]:
            names = set(f["oracle"] for f in sc.get("findings") or [])
            if not names:
                # only the conformance check failed: the recorded trace is the evidence
                chosen, replay = sc, dict(engine="vh-repl", params=sc["params"], schedule=sc.get("schedule"))
                break
            rep, replay = reproduce(binp, work, sc)
            if names & rep:
                chosen = sc
                break
        if chosen is None:
            unreproduced.append("%s (e.g. scenario %s)" % (sig, scs[0]["id"]))
            continue
        reported += 1
        sc = chosen
        obs = dict(sc["observation"])
        obs["batches"] = [(b["ep"], b["ids"]) for b in obs.get("batches") or []]
        # the replay object only holds what is needed to run the case again (stable across runs); what was
        # observed this time goes to the evidence file
        replay.update(signature=sig, failed_predicates=sorted(set(f["oracle"] for f in sc.get("findings") or [])),
                      trace_rejected=rej.get(sc["uid"]) is not None)
        det = c.cov.setdefault("violation_details", [])
        if len(det) < 3:
            det.append(dict(signature=sig, scenario=sc["id"], kind=sc["kind"], findings=(sc.get("findings") or [])[:6],
                            tlc_invariants=sorted(inv.get(sc["uid"], set())), rejected_event=rej.get(sc["uid"]),
                            observation=obs, events=fmt_events(sc["events"], 120)))
        parts, seen = [], set()
        for f in sc.get("findings") or []:
            if f["oracle"] not in seen:
                seen.add(f["oracle"])
                parts.append("%s: %s" % (f["oracle"], f["text"]))
        if rej.get(sc["uid"]) is not None:
            parts.append("trace is not a behaviour of Replication.tla: event %s cannot be explained" % json.dumps(rej[sc["uid"]]))
        if not parts:
            parts.append("TLC invariants failed on the recorded trace: %s" % sorted(inv.get(sc["uid"], set())))
        head = ""
        if sig == SIG_RESET:
            head = ("a StorePipelineState issued by the subscriber of a stopped pipeline took effect after ResetPipeline "
                    "had set last_log_id to NULL; ")
        if sig == SIG_NOPROGRESS:
            head = ("the pipeline no longer makes progress although the exporter is healthy (count-based liveness oracle, "
                    "K=5 attempts, no time involved); ")
        text = "%s%s [scenario %s (%s); produced=%d persisted=%d acknowledged since the last reset=%s; %d scenario(s) with this signature]" % (
            head, " | ".join(parts), sc["id"], sc["kind"], obs["produced"], obs["persisted"], obs.get("gotSinceReset"), len(scs))
        c.violation(sig, text, replay)
    if unreproduced:
        c.note("findings that did not reproduce when run again: " + "; ".join(unreproduced))
        if not reported:
            raise vlib.Inconclusive("findings did not reproduce: " + "; ".join(unreproduced))


# ----------------------------------------------------------------------------- main

def run(c):
    tier = c.tier
    q = tier == "quick"
    work = vlib.scratch("c33")
    pool = cf.ThreadPoolExecutor(max_workers=7)
    try:
        check_storage_model()
        binp = vlib.go_build("vh-repl")

        # ---- 1. TLC on the specification (runs while the scenarios are executed and validated)
        jobs = tlc_jobs(tier)
        futs = {pool.submit(run_tlc_job, j[:4]): j for j in jobs}

        # ---- 2. random scenarios on the real code, and validation of their traces
        n_rand = 100 if q else 2000
        t0 = time.time()
        rnd = random_runs(binp, work, c.seed, n_rand, 4 if q else 8)
        c.set("random_scenarios", len(rnd))
        c.set("random_scenarios_wall_s", round(time.time() - t0, 1))
        vlib.log("[c33] %d random scenarios in %.1fs" % (len(rnd), time.time() - t0))
        val_rnd = pool.submit(validate_parallel, c, "random", rnd, work, 2 if q else 6)

        # ---- collect TLC results
        results = {}
        for f in cf.as_completed(futs):
            name, r = f.result()
            results[name] = (r, futs[f])
        vlib.log("[c33] TLC on the specification done at +%.0fs: %s" % (time.time() - c.t0, ", ".join("%s=%ds/%d" % (n, results[n][0].wall, results[n][0].distinct) for n in sorted(results))))
        schedules = []
        design_findings = []
        for name, (r, job) in sorted(results.items()):
            expect = job[4]
            c.add_tlc(r, name)
            if r.error == "timeout":
                raise vlib.Inconclusive("TLC %s timed out" % name)
            tv = temporal_violated(r)
            if r.error and not tv and not r.violations:
                raise vlib.Inconclusive("TLC %s: %s\n%s" % (name, r.error, r.out[-1500:]))
            if expect == "hold":
                if r.violations or tv:
                    raise vlib.Inconclusive("specification-level failure in %s (not a verdict about the code): %s" % (name, r.violations or "temporal property"))
                if r.distinct < 1000:
                    raise vlib.Inconclusive("TLC %s explored only %d states" % (name, r.distinct))
            elif expect.startswith("must_fail:"):
                inv_name = expect.split(":", 1)[1]
                if ("invariant", inv_name) not in r.violations:
                    raise vlib.Inconclusive("negative control %s: TLC did not report %s" % (name, inv_name))
                cases = vlib.tlc_cases(r.out)
                if name.startswith("find_"):
                    if not cases:
                        raise vlib.Inconclusive("%s: counterexample without a schedule" % name)
                    design_findings.append("%s (%d-step schedule)" % (inv_name, len(cases[0])))
                    schedules.append(dict(id=name, pageSize=page_size_of(job[2]), source="tlc-counterexample(pre-9ae9635 model):" + name, steps=cases[0]))
                elif cases:
                    schedules.append(dict(id=name, pageSize=2, source="tlc-negative-control:" + name, steps=cases[0]))
            elif expect == "must_fail_temporal":
                if not tv:
                    raise vlib.Inconclusive("negative control %s: TLC did not refute the temporal property" % name)
                design_findings.append("LiveAllAcceptedSinceReset")
        c.set("negative_controls_spec", "SubAhead / SkipLog / AdvanceOnFail variants and the pre-9ae9635 model (JoinSubscriber=FALSE): "
                                        "TLC reported the expected failure for each")
        if design_findings:
            c.set("pre_repair_model_refuted", design_findings)

        # ---- 3. schedules forced on the real code (TLC counterexamples, negative controls, samples)
        if not q:
            for ps in (1, 2):
                cfgtxt = cfg_from("MC_ReplSim.cfg", PageSizes="{%d}" % ps, SimDepth=26 + 6 * ps)
                cfgname = "sim%d.cfg" % ps
                r = vlib.tlc("MC_ReplSim", cfgname, workers=1, timeout=600, deadlock=False, simulate="num=250", depth=200,
                             seed=c.seed * 10 + ps, extra_files=[(cfgname, None, cfgtxt)])
                c.add_tlc(r, "simulate_ps%d" % ps)
                seen = set()
                for case in vlib.tlc_cases(r.out):
                    key = json.dumps(case, sort_keys=True)
                    if key in seen or len(seen) >= 150:
                        continue
                    seen.add(key)
                    schedules.append(dict(id="sim%d_%d" % (ps, len(seen)), pageSize=ps, source="tlc-simulate", steps=case))
                if len(seen) < 20:
                    raise vlib.Inconclusive("TLC simulation produced only %d schedules" % len(seen))
        sch = schedule_run(binp, work, "sched", schedules, 1 if q else 8) if schedules else []
        c.set("schedules_replayed", len(sch))
        vlib.log("[c33] %d schedules replayed at +%.0fs" % (len(sch), time.time() - c.t0))
        c.set("schedules_followed_to_the_end", sum(1 for s in sch if not s.get("diverged")))
        by_id = {s["id"]: s for s in sch}
        for name in ("nc_subahead", "nc_skiplog"):
            s = by_id.get(name)
            if s is not None and not s.get("diverged") and not s.get("findings"):
                raise vlib.Inconclusive("the real code followed the mutant schedule %s to its end without any finding" % name)
        for name in ("find_persisted", "find_gap"):
            s = by_id.get(name)
            if s is not None and not s.get("findings"):
                c.note("counterexample %s of the pre-9ae9635 model is NOT reproducible on the code, as expected (%s)" % (name, s.get("diverged") or "followed, no finding"))

        # ---- 4. verdicts of the harness itself
        scen = rnd + sch
        incon = [s for s in scen if s["status"] == "inconclusive"]
        c.set("scenarios_inconclusive", len(incon))
        for s in incon:
            if (s.get("why") or "").startswith("harness"):
                raise vlib.Inconclusive("scenario %s: %s" % (s["id"], s["why"]))

        # ---- 5. trace validation of every recorded trace
        val_sch = pool.submit(validate_parallel, c, "schedules", sch, work, 1 if q else 4) if sch else None
        acc, rej, inv = val_rnd.result()
        if val_sch is not None:
            acc2, rej2, inv2 = val_sch.result()
            acc += acc2
            rej.update(rej2)
            inv.update(inv2)
        c.set("traces_validated_against_impl", len(acc))
        vlib.log("[c33] trace validation done at +%.0fs: %d accepted, %d rejected" % (time.time() - c.t0, len(acc), len(rej)))
        c.set("traces_rejected", len(rej))
        c.set("trace_events", sum(len(tlc_events(s)) for s in scen))
        nontrivial = sum(1 for s in rnd if s["params"].get("ops") and s["observation"]["produced"] >= 2)
        c.set("random_scenarios_with_manager_ops", nontrivial)
        if nontrivial < len(rnd) // 3:
            raise vlib.Inconclusive("vacuous scenario stream")

        # ---- 6. negative control on the binding
        base = next((s for s in rnd if s["uid"] in acc and s["uid"] not in inv and
                     sum(1 for e in s["events"] if e["k"] == "Store") >= 2 and
                     sum(1 for e in s["events"] if e["k"] == "Accept" and e["ok"]) >= 2), None)
        if base is None and not rej:
            raise vlib.Inconclusive("no accepted trace for the negative control")

        def control(what):
            bad = json.loads(json.dumps(base))
            evs = bad["events"]
            if what == "store+1":
                e = [x for x in evs if x["k"] == "Store"][-1]
                e["x"] += 1
            else:
                e = [x for x in evs if x["k"] == "Accept" and x["ok"]][-1]
                e["ids"] = [i + 1 for i in e["ids"]]
            bad["uid"] = "nc-" + what
            a, r_, i_ = validate_batch(c, "negctl-" + what, [bad], work)
            if not r_ and not i_:
                raise vlib.Inconclusive("negative control on the binding: corrupted trace (%s) was accepted" % what)
            return "%s -> %s" % (what, "rejected at " + r_[bad["uid"]]["k"] if r_ else "invariant " + ",".join(sorted(i_[bad["uid"]])))

        if base is not None:
            controls = list(pool.map(control, ("store+1", "batch-shift")))
            c.set("negative_control", "one field of accepted trace %s corrupted: %s" % (base["id"], "; ".join(controls)))
        else:
            c.set("negative_control", "skipped: no suitable accepted trace, %d recorded traces were rejected by TLC" % len(rej))

        # ---- 7. violations
        flagged = [s for s in scen if (s.get("findings") or s["uid"] in rej or s["uid"] in inv)]
        c.set("scenarios_flagged", len(flagged))
        report(c, binp, work, flagged, inv, rej, set(acc))
        if not c.violations and len(incon) > max(3, len(scen) // 20):
            # bounded waits that expire are never a verdict; too many of them means the run says little
            raise vlib.Inconclusive("%d of %d scenarios inconclusive, e.g. %s: %s" % (len(incon), len(scen), incon[0]["id"], incon[0].get("why")))
        for s in rnd[:2] + sch[:2]:
            c.sample(dict(id=s["id"], kind=s["kind"], params=s["params"], status=s["status"],
                          batches=[(b["ep"], b["ids"]) for b in s["observation"]["batches"]][:12],
                          persisted=s["observation"]["persisted"], produced=s["observation"]["produced"], events=len(s["events"])))
        c.assume("one pipeline, one ledger, one exporter; graceful manager restarts (Manager.Stop then a new Manager over the same storage), no process crash")
        c.assume("the in-memory replication.Storage mirrors system/store.go: StorePipelineState and UpdatePipeline are unconditional single-row UPDATEs, reads see the last committed write")
        c.assume("TLC bounds: <= %s logs, page size 1-2, <= %s exporter failures, <= 1 StopPipeline/StartPipeline, <= 1 ResetPipeline, <= 1 manager restart" % (("4", "1") if q else ("4", "2")))
        c.assume("exporter = recording drivers.Driver behind the real DriverFacade (no batcher); periodic Manager synchronisation disabled (sync period 1h)")
    finally:
        pool.shutdown(wait=False, cancel_futures=True)
        shutil.rmtree(work, ignore_errors=True)


if __name__ == "__main__":
    vlib.main(run, "C33", "model_checking")
