#!/usr/bin/env python3
"""Check of property C31 (events exactly for committed writes, after commit): DESIGN.md §6 C31.

  1. sequential pipeline: Step_C31_Events on every request of the seeded histories (TraceLedger);
  2. matrix write kind x {single, first write on an initializing ledger, atomic bulk, sequential bulk
     (with / without continueOnFailure), both bulk shapes as first write} x {success, business failure,
     dry run, injected COMMIT failure}: spec/MC_Events.tla prints every applicable cell with the events
     Bulk prescribes; vh-api replays it with the recording listener (events stamped with the engine
     commit counter; an event is `afterCommit` iff the log row it announces was durable when the listener
     was called); TraceBulk validates the recorded trace (Step_C31_RequestEvents);
  3. fault sweep (shared with C07): listener calls against Faults (none before / without a commit);
  4. negative controls: a dropped event and an event stamped before its commit (TLC must reject), an
     extra listener call on a failed request (the comparator must reject).
"""
import os
import sys

sys.path.insert(0, os.path.dirname(os.path.abspath(__file__)))
sys.path.insert(0, os.path.join(os.path.dirname(os.path.abspath(__file__)), "..", "lib"))
import api_common as A
import ledger_common as L
import ledger_mutators as M
import vlib

PROP = "C31"


def run(c):
    d, fd, ed = A.together(lambda: L.build_pipeline(c.tier, c.seed), lambda: A.faults_pipeline(c.tier, c.seed), lambda: A.events_pipeline(c.tier, c.seed))
    L.evaluate(c, PROP, d)
    pred, mut = M.CONTROLS[PROP]
    controls = [L.negative_control(d, c.seed, pred, mut)]
    res, cells = A.eval_events(c, ed)
    bad = set(case for _, _, case in res["fails"])
    tp = os.path.join(ed, "trace.ndjson")
    controls.append(A.trace_negative_control(tp, bad, c.seed, "Step_C31_RequestEvents", A.m_drop_event))
    controls.append(A.trace_negative_control(tp, bad, c.seed + 1, "Step_C31_RequestEvents", A.m_event_before_commit))
    programs, cases, results, accepted = A.eval_faults(c, PROP, fd)
    controls.append(A.fault_negative_control(c, PROP, programs, cases, results, accepted, c.seed))
    c.set("rule", "evaluations = matrix cells replayed + (request, fault position, error kind) cases; distinct_nontrivial = cells that prescribe at least one "
                  "event or inject a commit failure + distinct injected faults")
    c.set("negative_control", controls)
    c.assume("an event is 'after commit' iff the engine commit counter at the listener call is >= the counter at which the log row it announces "
             "became durable (pgmodel OnCommit hook); listener = stack.RecListener (the repository's Listener interface)")


vlib.main(run, PROP, "fault_enumeration")
