#!/usr/bin/env python3
"""bin/check --replay <file>: re-run the case recorded in a replay file (replays/<ID>-<hash>.json, written by
Check.violation) against /repo's current working tree.  Exit 1 if the recorded failure reproduces (the failing
predicates / disagreements are printed), 0 if it does not, 2 if the replay cannot be run.

The file holds {"property", "sig", "text", "replay": {...}}; the replay object names its engine:
  kind ledgerseq / ledgerconc           vh-ledger replay | conc -replay, then TLC on TraceLedger (report spec)
  kind reads                            vh-reads replay, then TLC on TraceReads (report spec)
  engine vh-numscript / kind cases, robust   vh-numscript --replay <file>
  engine vh-chart, vh-schema, vh-system, kind fault|bulk|bulk-order|reqcase|shape|amounts|probe (vh-api)
                                        <binary> --replay <file> (each prints its own verdict, exit 1 = reproduced)
  engine vh-repl                        vh-repl schedule / one with the recorded schedule or parameters
"""
import json
import os
import re
import sys

sys.path.insert(0, os.path.dirname(os.path.abspath(__file__)))
sys.path.insert(0, os.path.join(os.path.dirname(os.path.abspath(__file__)), "..", "checks"))
import vlib

FAIL_RE = re.compile(r'<<"FAIL", "(\w+)", (\d+), (\d+)>>')


def tlc_report(module, cfg, trace):
    r = vlib.tlc(module, cfg, workers=1, timeout=1200, extra_files=[("trace.ndjson", trace, None)])
    if r.error or r.rc != 0:
        print("TLC could not evaluate the trace: %s\n%s" % (r.error, r.out[-1500:]))
        sys.exit(2)
    return sorted(set(m.group(1) for m in FAIL_RE.finditer(r.out)))


def main():
    if len(sys.argv) < 2:
        print("usage: bin/check --replay <path>")
        sys.exit(2)
    path = os.path.abspath(sys.argv[1])
    doc = json.load(open(path))
    rp = doc.get("replay") or {}
    prop = doc.get("property", "?")
    kind = rp.get("kind") or ""
    engine = rp.get("engine") or ""
    work = vlib.scratch("replay")
    try:
        if kind in ("ledgerseq", "ledgerconc"):
            exe = vlib.go_build("vh-ledger")
            trace = os.path.join(work, "trace.ndjson")
            cs = rp.get("case") or {}
            if kind == "ledgerseq" and cs.get("kind") == "featsweep":
                # the history is a function of the case seed; it runs under all 48 feature combinations
                rc, out = vlib.run([exe, "featsweep", "-case-seed", str(cs.get("seed")), "-len", str(len(cs.get("ops") or [])),
                                    "-scale", str(cs.get("scale", "1")), "-out", trace], timeout=1800)
            elif kind == "ledgerseq":
                rc, out = vlib.run([exe, "replay", "-case", path, "-out", trace], timeout=900)
            else:
                rc, out = vlib.run([exe, "conc", "-replay", path, "-out", trace], timeout=900)
            if not os.path.exists(trace) or os.path.getsize(trace) == 0:
                print("the case could not be executed:\n" + out[-2000:])
                sys.exit(2)
            fails = tlc_report("TraceLedger", "TraceLedgerReport.cfg", trace)
            want = rp.get("predicate")
            print("failing predicates on replay: %s (recorded: %s)" % (fails, want))
            sys.exit(1 if (want in fails if want else bool(fails)) else 0)
        if kind == "reads":
            exe = vlib.go_build("vh-reads")
            cpath = os.path.join(work, "case.json")
            json.dump(rp.get("case"), open(cpath, "w"))
            trace = os.path.join(work, "trace.ndjson")
            rc, out = vlib.run([exe, "replay", "-case", cpath, "-out", trace], timeout=900)
            if not os.path.exists(trace) or os.path.getsize(trace) == 0:
                print("the case could not be executed:\n" + out[-2000:])
                sys.exit(2)
            fails = tlc_report("TraceReads", "TraceReadsReport.cfg", trace)
            want = rp.get("predicate")
            print("failing predicates on replay: %s (recorded: %s)" % (fails, want))
            sys.exit(1 if (want in fails if want else bool(fails)) else 0)
        binary = None
        if engine in ("vh-numscript", "vh-chart", "vh-schema", "vh-system"):
            binary = engine
        elif kind in ("cases", "robust", "allot") or str(rp.get("cmd", "")).find("vh-numscript") >= 0:
            binary = "vh-numscript"
        elif kind in ("fault", "bulk", "bulk-order", "reqcase", "shape", "amounts", "probe"):
            binary = "vh-api"
        if binary:
            exe = vlib.go_build(binary)
            rc, out = vlib.run([exe, "--replay", path], timeout=900)
            print(out[-4000:])
            sys.exit(rc if rc in (0, 1) else 2)
        if engine == "vh-repl":
            exe = vlib.go_build("vh-repl")
            if rp.get("schedule"):
                sp = os.path.join(work, "schedule.json")
                json.dump([rp["schedule"]], open(sp, "w"))
                rc, out = vlib.run([exe, "schedule", "-in", sp], timeout=900)
            else:
                rc, out = vlib.run([exe, "one", "-n", "25", "-params", json.dumps(rp.get("params"))], timeout=900)
            print(out[-4000:])
            sig = doc.get("sig", "")
            hit = bool(sig) and sig.split("/")[0] in out
            sys.exit(1 if (rc == 1 or hit) else (0 if rc == 0 else 2))
        print("replay file of property %s names no engine this dispatcher knows (kind=%r engine=%r)" % (prop, kind, engine))
        sys.exit(2)
    finally:
        import shutil
        shutil.rmtree(work, ignore_errors=True)


main()
