#!/usr/bin/env python3
"""Generates /verif/MANIFEST.json from checks/registry.json (one entry per claimed property) and
checks/not_applicable.json. Every property of properties.jsonl is either claimed or listed under
not_applicable with a reason. Run after editing the registry:  python3 lib/mkmanifest.py"""
import json
import os
import sys

V = os.path.dirname(os.path.dirname(os.path.abspath(__file__)))
props = [json.loads(l)["id"] for l in open(os.path.join(V, "properties.jsonl")) if l.strip()]
reg = json.load(open(os.path.join(V, "checks", "registry.json")))
na = json.load(open(os.path.join(V, "checks", "not_applicable.json")))

# per-engine registries (checks/registry.<engine>.json): {"engines": [...] | "engine": {...}, "checks": {...}}
# or a bare {pid: entry} map
import glob
for f in sorted(glob.glob(os.path.join(V, "checks", "registry.*.json"))):
    x = json.load(open(f))
    if "checks" in x:
        engs = x.get("engines") or ([x["engine"]] if "engine" in x else [])
        chk = x["checks"]
    else:
        engs, chk = x.pop("_engines", []), x
    for e in engs:
        # normalise to the schema's field names
        if "kind_free_text" not in e and "description" in e:
            e["kind_free_text"] = e.pop("description")
        if "path" not in e:
            e["path"] = " ".join(list(e.pop("specs", [])) + list(e.pop("harness", [])) + list(e.pop("checks", []) if isinstance(e.get("checks"), list) else []))
        e = {k: e[k] for k in ("name", "path", "serves_properties", "kind_free_text") if k in e}
        if e["name"] not in [k["name"] for k in reg["engines"]]:
            reg["engines"].append(e)
    for pid, entry in chk.items():
        if pid.startswith("_"):
            continue
        reg["checks"][pid] = entry
addenda = json.load(open(os.path.join(V, "checks", "addenda.json")))
for pid, extra in addenda.items():
    if pid in reg["checks"] and extra.strip() not in reg["checks"][pid]["text"]:
        reg["checks"][pid]["text"] = reg["checks"][pid]["text"].rstrip() + extra
for e in reg["engines"]:
    e["serves_properties"] = sorted(p for p, c in reg["checks"].items() if c["engine"] == e["name"])

checks = []
claimed = set()
for pid in props:
    if pid not in reg["checks"]:
        continue
    r = reg["checks"][pid]
    if not os.path.exists(os.path.join(V, "checks", pid + ".py")):
        print("registry names %s but checks/%s.py is missing" % (pid, pid), file=sys.stderr)
        sys.exit(1)
    claimed.add(pid)
    c = dict(
        property_id=pid,
        quick_cmd="bin/check %s quick" % pid,
        thorough_cmd="bin/check %s thorough" % pid,
        evidence_file="evidence/%s.json" % pid,
        replay_cmd_template="bin/check --replay {path}",
        engine=r["engine"],
        level_claimed=dict(category=r["level"], text=r["text"], design_ref=r.get("design_ref", "DESIGN.md §6 " + pid)),
        level_note=r["note"],
        technique=r["technique"],
    )
    checks.append(c)

default_reason = na.get("_default", "not built yet")
nalist = []
for pid in props:
    if pid in claimed:
        continue
    nalist.append(dict(property_id=pid, reason=na.get(pid, default_reason)))

m = dict(
    version=1,
    setup_cmd=reg["setup_cmd"],
    hooks=reg["hooks"],
    engines=reg["engines"],
    checks=checks,
    notes=reg.get("notes", ""),
    not_applicable=nalist,
)
json.dump(m, open(os.path.join(V, "MANIFEST.json"), "w"), indent=1)
print("MANIFEST.json: %d checks, %d not_applicable" % (len(checks), len(nalist)))
