#!/usr/bin/env python3
"""Developer helper: run TLC on a spec module and print a compact summary.
usage: tlcrun.py MODULE CFG [--file name=path]... [--workers N] [--timeout S] [--continue] [--tail N] [--dfs]"""
import argparse
import re
import sys
import os

sys.path.insert(0, os.path.dirname(os.path.abspath(__file__)))
import vlib

ap = argparse.ArgumentParser()
ap.add_argument("module")
ap.add_argument("cfg")
ap.add_argument("--file", action="append", default=[])
ap.add_argument("--workers", default="auto")
ap.add_argument("--timeout", type=int, default=600)
ap.add_argument("--continue", dest="cont", action="store_true")
ap.add_argument("--tail", type=int, default=40)
ap.add_argument("--dfs", action="store_true")
ap.add_argument("--simulate", default=None)
ap.add_argument("--depth", default=None)
a = ap.parse_args()
files = []
for f in a.file:
    n, p = f.split("=", 1)
    files.append((n, p, None))
r = vlib.tlc(a.module, a.cfg, workers=a.workers, timeout=a.timeout, extra_files=files, cont=a.cont, dfs=a.dfs,
             simulate=a.simulate, depth=a.depth)
print(r.summary())
out = r.out
i = out.find("Starting...")
body = out[i:] if i >= 0 else out
if r.error and "Parsing" in (r.error or "") or "Errors" in (r.error or ""):
    m = re.search(r"(Semantic errors:.*?)(?:Semantic processing|Starting)", out, re.S)
    if m:
        print(m.group(1)[:3000])
    m = re.search(r"(\*\*\* Parse Error.*?)(?:Semantic processing|Starting|$)", out, re.S)
    if m:
        print(m.group(1)[:3000])
lines = body.splitlines()
print("\n".join(lines[: a.tail]))
