#!/bin/bash
# Run the repository's pinned test suite (guard off) on the root module and compare with the stable-pass set of
# /root/.vp/BASELINE.json. Usage: lib/run_baseline.sh [pkgs...]
export GOPROXY=off GOSUMDB=off GOTOOLCHAIN=local GOFLAGS=
cd /repo
pk="${@:-./...}"
go1.26 test -mod=mod -json -vet=off -count=1 -timeout 25m $pk 2>&1 | python3 -c '
import sys, json
ok=set(); bad=[]
for l in sys.stdin:
    try: o=json.loads(l)
    except Exception: continue
    if o.get("Test") and o.get("Action")=="pass": ok.add(o["Package"]+"::"+o["Test"])
    if o.get("Test") and o.get("Action")=="fail": bad.append(o["Package"]+"::"+o["Test"])
    if not o.get("Test") and o.get("Action")=="fail": bad.append("PKG "+o["Package"])
b=json.load(open("/root/.vp/BASELINE.json"))
full = len(sys.argv) < 2
want=[t for t in b["stable_pass"] if "/pkg/client" not in t and "/deployments/" not in t]
missing=[t for t in want if t not in ok] if full else []
print("pass",len(ok),"failed",len(bad),"stable-pass tests not passing:",len(missing))
print("\n".join([x for x in bad if x.split("PKG ")[-1] not in " ".join(b["always_fail"])][:20]))
print("\n".join(missing[:20]))
' $@
