#!/usr/bin/env python3
"""Evaluate a seeded change (seeded/<id>/<variant>/patch.diff) without touching /repo: the patch is applied to a
scratch worktree of /repo's HEAD, the listed checks run against it (VERIF_REPO / VERIF_OUT), and the outcome is
written to seeded/<id>/<variant>/result.json.  The official procedure (git -C /repo apply; bin/check ...; git -C
/repo checkout -- .) gives the same verdicts; this variant lets several evaluations run side by side.

usage: lib/seeded_eval.py C06/A [--tier quick] [--seed 1] [CHECK ...]     (default check: the property itself)
"""
import json
import os
import shutil
import subprocess
import sys
import time

V = os.path.dirname(os.path.dirname(os.path.abspath(__file__)))


def sh(cmd, **kw):
    return subprocess.run(cmd, stdout=subprocess.PIPE, stderr=subprocess.STDOUT, text=True, **kw)


def main():
    args = sys.argv[1:]
    tier, seed = "quick", "1"
    if "--tier" in args:
        i = args.index("--tier"); tier = args[i + 1]; del args[i:i + 2]
    if "--seed" in args:
        i = args.index("--seed"); seed = args[i + 1]; del args[i:i + 2]
    target = args[0]
    pid, variant = target.split("/")
    checks = args[1:] or [pid]
    sdir = os.path.join(V, "seeded", pid, variant)
    patch = os.path.join(sdir, "patch.diff")
    wt = "/tmp/sev-%s-%s" % (pid, variant)
    out = wt + "-out"
    sh(["git", "-C", "/repo", "worktree", "remove", "--force", wt])
    shutil.rmtree(wt, ignore_errors=True)
    shutil.rmtree(out, ignore_errors=True)
    for attempt in range(5):   # concurrent evaluations contend on /repo/.git/worktrees
        r = sh(["git", "-C", "/repo", "worktree", "add", "-f", "--detach", wt, "HEAD"])
        if r.returncode == 0 and os.path.exists(os.path.join(wt, "go.mod")):
            break
        sh(["git", "-C", "/repo", "worktree", "remove", "--force", wt])
        shutil.rmtree(wt, ignore_errors=True)
        sh(["git", "-C", "/repo", "worktree", "prune"])
        time.sleep(3 + attempt * 5)
    else:
        print(r.stdout); sys.exit(2)
    result = dict(target=target, tier=tier, seed=int(seed), repo_head=sh(["git", "-C", "/repo", "rev-parse", "--short", "HEAD"]).stdout.strip(),
                  checks={})
    try:
        r = sh(["git", "-C", wt, "apply", patch])
        if r.returncode != 0:
            print("patch does not apply:", r.stdout); sys.exit(2)
        env = dict(os.environ, GOFLAGS="-mod=mod", GOPROXY="off", GOSUMDB="off", GOTOOLCHAIN="local")
        r = sh(["go1.26", "build", "./..."], cwd=wt, env=env)
        result["compiles"] = r.returncode == 0
        if r.returncode != 0:
            print("does not compile:", r.stdout[-2000:]); sys.exit(2)
        env.update(VERIF_REPO=wt, VERIF_OUT=out, VERIF_SEED=seed)
        os.makedirs(os.path.join(out, "evidence"), exist_ok=True)
        os.makedirs(os.path.join(out, "replays"), exist_ok=True)
        for chk in checks:
            t0 = time.time()
            r = sh([os.path.join(V, "bin", "check"), chk, tier], cwd=V, env=env)
            lines = r.stdout.splitlines()
            viol = [l for l in lines if l.startswith("VIOLATION")]
            texts = [l.strip()[:400] for l in lines if l.startswith("  ") and "predicate" in l or l.startswith("  ") and "sig" in l][:6]
            inc = [l[:400] for l in lines if l.startswith("INCONCLUSIVE")]
            result["checks"][chk] = dict(rc=r.returncode, violations=len(viol), detail=texts or [l[:300] for l in lines[-6:]],
                                         inconclusive=inc, wall_s=round(time.time() - t0, 1))
            print("%s on %s: rc=%d violations=%d (%.0fs)" % (chk, target, r.returncode, len(viol), time.time() - t0))
            sys.stdout.flush()
        result["caught_by"] = sorted(c for c, x in result["checks"].items() if x["rc"] == 1 and x["violations"] > 0)
        prev = {}
        rp = os.path.join(sdir, "result.json")
        if os.path.exists(rp):
            try:
                prev = json.load(open(rp))
            except Exception:
                prev = {}
        if prev.get("checks") and prev.get("repo_head") == result["repo_head"]:
            merged = dict(prev["checks"]); merged.update(result["checks"]); result["checks"] = merged
            result["caught_by"] = sorted(c for c, x in merged.items() if x["rc"] == 1 and x["violations"] > 0)
        json.dump(result, open(rp, "w"), indent=1)
    finally:
        sh(["git", "-C", "/repo", "worktree", "remove", "--force", wt])
        shutil.rmtree(wt, ignore_errors=True)
        shutil.rmtree(out, ignore_errors=True)
        # alt build directory of this worktree
        import hashlib
        tag = hashlib.sha256(os.path.realpath(wt).encode()).hexdigest()[:10]
        shutil.rmtree(os.path.join(V, ".build", "alt-" + tag), ignore_errors=True)


main()
