#!/usr/bin/env python3
"""dev helper: show the trace lines for the first failure of each predicate. usage: dev_show.py DIR [PRED] [N]"""
import json, sys, re
d = sys.argv[1]
want = sys.argv[2] if len(sys.argv) > 2 else None
nshow = int(sys.argv[3]) if len(sys.argv) > 3 else 1
lines = [json.loads(l) for l in open(d + "/t.ndjson")]
seen = {}
for m in re.finditer(r'<<"FAIL", "(\w+)", (\d+), (\d+)>>', open(d + "/out.txt").read()):
    pred, ln, case = m.group(1), int(m.group(2)), int(m.group(3))
    if want and pred != want: continue
    if seen.get(pred, 0) >= nshow: continue
    seen[pred] = seen.get(pred, 0) + 1
    cur = lines[ln - 1]
    prev = lines[ln - 2] if ln >= 2 else None
    op = {k: v for k, v in cur["op"].items() if v not in ("", 0, False, [], {}) }
    print("==", pred, "line", ln, "case", case)
    print("  op ", json.dumps(op))
    print("  res", json.dumps(cur["res"])[:300])
    print("  ev ", json.dumps(cur["ev"]))
    for name, st in (("prev", prev["st"].get("l1") if prev else None), ("cur ", cur["st"].get("l1"))):
        if not st: continue
        print("  %s txs" % name, [(t["id"], t["ts"], t["ins"], t["ref"], t["meta"], "rev" if t["rev"] else "", t["reverts"], [(p["s"], p["d"], p["as"], p["n"]) for p in t["ps"]]) for t in st["txs"]])
        print("  %s accts" % name, [(a["addr"], a["first"], a["ins"], a["meta"]) for a in st["accts"]])
        print("  %s logs" % name, [(g["id"], g["type"][:6], g["date"], g["ik"], g["tx"], g["tgt"], g["key"], g["meta"]) for g in st["logs"]])
        print("  %s vols" % name, [(v["a"], v["as"], v["i"], v["o"]) for v in st["vols"]])
