#!/bin/sh
# dev helper: generate sequential traces and list failing predicates (report mode)
SEED=${1:-1}; N=${2:-100}; LEN=${3:-10}; SCALE=${4:-1}; FEAT=${5:-default}
T=$(mktemp -d)
/tmp/vh-ledger seq -seed $SEED -cases $N -len $LEN -scale $SCALE -features $FEAT -out $T/t.ndjson -cases-out $T/c.json | cut -c1-600
cd /verif && python3 lib/tlcrun.py TraceLedger TraceLedgerReport.cfg --file trace.ndjson=$T/t.ndjson --workers 1 --tail 100000 --timeout 900 2>&1 | grep -v "^Progress\|^Finished comp\|^Computing" > $T/out.txt
head -1 $T/out.txt | cut -c1-300
grep FAIL $T/out.txt | awk -F'"' '{print $4}' | sort | uniq -c
grep -v FAIL $T/out.txt | grep -i "error\|exception" | head -5
echo "dir=$T"
