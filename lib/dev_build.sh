#!/bin/sh
# dev helper: build vh-ledger from a private copy of harness/ without files other builders are editing
set -e
rm -rf /tmp/hb && mkdir -p /tmp/hb
rsync -a --exclude 'drive/faults.go' --exclude 'drive/bulk.go' --exclude 'drive/requests.go' --exclude 'drive/v1.go' --exclude 'drive/reads*.go' --exclude 'drive/api_*.go' --exclude 'cmd/vh-api' --exclude 'cmd/vh-reads' /verif/harness/ /tmp/hb/
cd /tmp/hb && export GOFLAGS=-mod=mod GOPROXY=off GOSUMDB=off GOTOOLCHAIN=local && go1.26 build -o /tmp/vh-ledger ./cmd/vh-ledger
