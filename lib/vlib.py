"""Shared machinery for /verif checks: Go build, TLC runs, evidence, known findings, verdicts.

Exit protocol (MANIFEST contract):
  0  property held on everything explored (KNOWN-FINDING lines allowed)
  1  printed `VIOLATION property=<id> replay=<path>` for a violation not listed in known-findings.txt
  2  INCONCLUSIVE (build failure, unsupported SQL, dead driver, timeout, failed negative control):
     never a verdict about the code.
"""
import fcntl
import hashlib
import json
import os
import re
import shutil
import subprocess
import sys
import tempfile
import time

VERIF = os.path.dirname(os.path.dirname(os.path.abspath(__file__)))
REPO = os.environ.get("VERIF_REPO", "/repo")
SPEC = os.path.join(VERIF, "spec")
HARNESS = os.path.join(VERIF, "harness")
BUILD = os.path.join(VERIF, ".build")
# VERIF_OUT (development aid, seeded-change evaluation): evidence and replay files of the run go there
_OUT = os.environ.get("VERIF_OUT") or VERIF
EVIDENCE = os.path.join(_OUT, "evidence")
REPLAYS = os.path.join(_OUT, "replays")
KNOWN = os.path.join(VERIF, "known-findings.txt")

GOENV = dict(
    GOFLAGS="-mod=mod", GOPROXY="off", GOSUMDB="off", GOTOOLCHAIN="local",
)


class Inconclusive(Exception):
    pass


def log(*a):
    print(*a, file=sys.stderr, flush=True)


def env_seed():
    try:
        return int(os.environ.get("VERIF_SEED", "1"))
    except ValueError:
        return 1


def scratch(prefix):
    base = os.environ.get("VERIF_SCRATCH") or tempfile.gettempdir()
    return tempfile.mkdtemp(prefix="verif-%s-" % prefix, dir=base)


# ----------------------------------------------------------------------------- Go build

def go_env():
    e = dict(os.environ)
    e.update(GOENV)
    return e


def go_build(cmd_pkg, name=None, tags="verif"):
    """Build harness/cmd/<cmd_pkg> against /repo's current working tree. Returns the binary path.
    Serialised by a file lock (several checks may run in parallel)."""
    name = name or cmd_pkg
    build_dir, modfile = BUILD, None
    if os.path.realpath(REPO) != "/repo":
        # development aid (seeded-change evaluation in a scratch worktree, VERIF_REPO=<dir>): same sources,
        # the module replacement points at that tree; binaries go to their own directory
        import hashlib
        tag = hashlib.sha256(os.path.realpath(REPO).encode()).hexdigest()[:10]
        build_dir = os.path.join(BUILD, "alt-" + tag)
        os.makedirs(build_dir, exist_ok=True)
        modfile = os.path.join(build_dir, "go.mod")
        with open(os.path.join(HARNESS, "go.mod")) as fh:
            mod = fh.read().replace("=> /repo", "=> " + os.path.realpath(REPO))
        with open(modfile, "w") as fh:
            fh.write(mod)
    os.makedirs(build_dir, exist_ok=True)
    out = os.path.join(build_dir, name)
    lock = open(os.path.join(build_dir, ".lock"), "w")
    fcntl.flock(lock, fcntl.LOCK_EX)
    try:
        src_sum = os.path.join(REPO, "go.sum")
        dst_sum = os.path.join(HARNESS, "go.sum") if modfile is None else os.path.join(build_dir, "go.sum")
        if os.path.exists(src_sum):
            shutil.copyfile(src_sum, dst_sum)
        t0 = time.time()
        p = subprocess.run(
            ["go1.26", "build"] + (["-modfile=" + modfile] if modfile else []) + ["-tags", tags, "-o", out, "./cmd/" + cmd_pkg],
            cwd=HARNESS, env=go_env(), stdout=subprocess.PIPE, stderr=subprocess.STDOUT, text=True)
        if p.returncode != 0:
            raise Inconclusive("go build failed for %s:\n%s" % (cmd_pkg, p.stdout[-4000:]))
        log("[build] %s in %.1fs" % (cmd_pkg, time.time() - t0))
    finally:
        fcntl.flock(lock, fcntl.LOCK_UN)
        lock.close()
    return out


def run(cmd, timeout=None, cwd=None, env=None, input=None):
    """Run a process; returns (rc, stdout+stderr). Timeout -> Inconclusive."""
    try:
        p = subprocess.run(cmd, cwd=cwd, env=env or os.environ, input=input,
                           stdout=subprocess.PIPE, stderr=subprocess.STDOUT, text=True, timeout=timeout)
    except subprocess.TimeoutExpired:
        raise Inconclusive("timeout after %ss: %s" % (timeout, " ".join(cmd)[:200]))
    return p.returncode, p.stdout


# ----------------------------------------------------------------------------- TLC

_RE_STATES = re.compile(r"(\d+) states generated, (\d+) distinct states found")
_RE_SIM = re.compile(r"The number of states generated: (\d+)")
_RE_VIOL = [
    (re.compile(r"Invariant (\S+) is violated"), "invariant"),
    (re.compile(r"Action property (\S+) is violated"), "action"),
    (re.compile(r"Temporal properties were violated"), "temporal"),
    (re.compile(r"Deadlock reached"), "deadlock"),
    (re.compile(r"The postcondition (\S+)?.*(violated|false)", re.I), "postcondition"),
    (re.compile(r"Assumption .* is false"), "assumption"),
]


class TLCResult:
    def __init__(self):
        self.rc = None
        self.out = ""
        self.generated = 0
        self.distinct = 0
        self.violations = []  # (kind, name)
        self.error = None
        self.wall = 0.0
        self.cmd = ""

    @property
    def ok(self):
        return self.rc == 0 and not self.violations and not self.error

    def summary(self):
        return dict(generated=self.generated, distinct=self.distinct, violations=self.violations,
                    error=self.error, wall_s=round(self.wall, 2), cmd=self.cmd)


def tlc(module, cfg=None, workers="auto", timeout=600, extra_files=(), simulate=None, depth=None,
        seed=None, deadlock=True, dfs=False, coverage=False, heap=None, extra_args=(), spec_dir=None,
        cont=False, keep_dir=None):
    """Run TLC on spec/<module>.tla with spec/<cfg>. The run happens in a scratch copy of the spec
    directory (plus extra_files: list of (name, path_or_None, content_or_None)); the scratch
    directory is removed afterwards unless keep_dir is given."""
    spec_dir = spec_dir or SPEC
    work = keep_dir or scratch("tlc")
    try:
        for f in os.listdir(spec_dir):
            if f.endswith((".tla", ".cfg")):
                shutil.copyfile(os.path.join(spec_dir, f), os.path.join(work, f))
        for item in extra_files:
            name, path, content = item
            if path:
                shutil.copyfile(path, os.path.join(work, name))
            else:
                with open(os.path.join(work, name), "w") as fh:
                    fh.write(content)
        cfg = cfg or (module + ".cfg")
        cmd = ["tlc", "-metadir", os.path.join(work, "states"), "-config", cfg]
        if workers:
            cmd += ["-workers", str(workers)]
        if not deadlock:
            cmd += ["-deadlock"]
        if simulate:
            cmd += ["-simulate", simulate]
        if depth:
            cmd += ["-depth", str(depth)]
        if seed is not None:
            cmd += ["-seed", str(seed)]
        if coverage:
            cmd += ["-coverage", "1"]
        if cont:
            cmd += ["-continue"]
        cmd += list(extra_args)
        cmd += [module]
        env = dict(os.environ)
        jto = []
        if dfs:
            jto.append("-Dtlc2.tool.queue.IStateQueue=StateDeque")
        if heap:
            jto.append("-Xmx%s" % heap)
        jto.append("-Xss64m")
        env["JAVA_TOOL_OPTIONS"] = " ".join(jto)
        r = TLCResult()
        r.cmd = " ".join(cmd)
        t0 = time.time()
        try:
            p = subprocess.run(cmd, cwd=work, env=env, stdout=subprocess.PIPE, stderr=subprocess.STDOUT,
                               text=True, timeout=timeout)
            r.rc, r.out = p.returncode, p.stdout
        except subprocess.TimeoutExpired as e:
            subprocess.run(["pkill", "-f", "metadir " + os.path.join(work, "states")])
            r.rc, r.out = -9, (e.stdout.decode() if isinstance(e.stdout, bytes) else (e.stdout or ""))
            r.error = "timeout"
        r.wall = time.time() - t0
        for m in _RE_STATES.finditer(r.out):
            r.generated, r.distinct = int(m.group(1)), int(m.group(2))
        if simulate:
            m = _RE_SIM.search(r.out)
            if m:
                r.generated = int(m.group(1))
                r.distinct = max(r.distinct, 1)
        for rx, kind in _RE_VIOL:
            for m in rx.finditer(r.out):
                name = m.group(1) if m.groups() and m.group(1) else kind
                r.violations.append((kind, name))
        if r.rc not in (0,) and not r.violations and not r.error:
            # parse/semantic/runtime errors
            m = re.search(r"(Error: .*|\*\*\* Errors.*|Parsing or semantic analysis failed.*)", r.out)
            r.error = (m.group(1) if m else "tlc exit %s" % r.rc)[:500]
        return r
    finally:
        if not keep_dir:
            shutil.rmtree(work, ignore_errors=True)


def tlc_cases(out):
    """Extract `<<"CASE", "<json>">>` lines printed by PrintT(<<"CASE", ToJson(x)>>)."""
    cases = []
    for line in out.splitlines():
        line = line.strip()
        if line.startswith('<<"CASE", "') and line.endswith('">>'):
            s = line[len('<<"CASE", '):-2]
            try:
                cases.append(json.loads(json.loads(s)))
            except Exception:
                pass
    return cases


# ----------------------------------------------------------------------------- known findings

def load_known():
    """known-findings.txt lines:  finding: property=<id> sig=<signature> :: text
                                  fixed: property=<id> <commit> <what failed>   (suppresses nothing)"""
    out = []
    if not os.path.exists(KNOWN):
        return out
    for line in open(KNOWN):
        line = line.strip()
        if not line or line.startswith("#"):
            continue
        m = re.match(r"finding:\s+property=(\S+)\s+sig=(\S+)\s*(?:::\s*(.*))?$", line)
        if m:
            out.append(dict(property=m.group(1), sig=m.group(2), text=m.group(3) or ""))
    return out


# ----------------------------------------------------------------------------- check context

class Check:
    """One run of one property's check. Collects coverage, violations, and writes evidence."""

    def __init__(self, prop, tier, level):
        self.prop = prop
        self.tier = tier
        self.level = level
        self.seed = env_seed()
        self.t0 = time.time()
        self.cov = {}
        self.assumptions = []
        self.violations = []   # dict(sig, text, replay)
        self.known_hits = []
        self.notes = []
        self._known = [k for k in load_known() if k["property"] == prop]

    # coverage helpers
    def add(self, key, n):
        self.cov[key] = self.cov.get(key, 0) + int(n)

    def set(self, key, v):
        self.cov[key] = v

    def sample(self, s, limit=5):
        l = self.cov.setdefault("samples", [])
        if len(l) < limit:
            l.append(s)

    def add_tlc(self, r, label):
        self.add("states", r.distinct)
        self.add("transitions", r.generated)
        self.cov.setdefault("tlc_runs", []).append(dict(label=label, **r.summary()))

    def assume(self, s):
        if s not in self.assumptions:
            self.assumptions.append(s)

    def note(self, s):
        self.notes.append(s)
        log("[note] " + s)

    def violation(self, sig, text, replay_obj):
        """Record a violation of this property observed on the real code. sig identifies the failing
        case class for known-findings matching; replay_obj is written to replays/."""
        for k in self._known:
            if k["sig"] == sig:
                if sig not in [h["sig"] for h in self.known_hits]:
                    # one replay file per known finding (stable name), so that it stays reproducible
                    kdir = os.path.join(REPLAYS, "known")
                    os.makedirs(kdir, exist_ok=True)
                    kp = os.path.join(kdir, "%s-%s.json" % (self.prop, hashlib.sha1(sig.encode()).hexdigest()[:10]))
                    with open(kp, "w") as fh:
                        json.dump(dict(property=self.prop, sig=sig, text=text, known_finding=True, replay=replay_obj),
                                  fh, indent=1, default=str)
                    self.known_hits.append(dict(sig=sig, text=k["text"] or text, replay=kp))
                return False
        os.makedirs(REPLAYS, exist_ok=True)
        h = hashlib.sha1(json.dumps(replay_obj, sort_keys=True, default=str).encode()).hexdigest()[:10]
        path = os.path.join(REPLAYS, "%s-%s.json" % (self.prop, h))
        with open(path, "w") as fh:
            json.dump(dict(property=self.prop, sig=sig, text=text, replay=replay_obj), fh, indent=1, default=str)
        self.violations.append(dict(sig=sig, text=text, replay=path))
        return True

    def finish(self):
        wall = time.time() - self.t0
        cov = dict(self.cov)
        cov.setdefault("samples", [])
        if self.notes:
            cov["notes"] = self.notes
        if self.known_hits:
            cov["known_findings_hit"] = self.known_hits
        ev = dict(property_id=self.prop, tier=self.tier, seed=self.seed, level=self.level, coverage=cov,
                  assumptions=self.assumptions, wall_s=round(wall, 2), violations=len(self.violations))
        os.makedirs(EVIDENCE, exist_ok=True)
        with open(os.path.join(EVIDENCE, self.prop + ".json"), "w") as fh:
            json.dump(ev, fh, indent=1, default=str)
        for h in self.known_hits:
            print("KNOWN-FINDING: property=%s %s [%s]" % (self.prop, h["text"], h["sig"]))
        for v in self.violations:
            print("VIOLATION property=%s replay=%s" % (self.prop, v["replay"]))
            print("  " + v["text"][:600])
        sys.stdout.flush()
        return 1 if self.violations else 0


def main(run_fn, prop, level):
    """Entry: run_fn(check) performs the check. Handles Inconclusive → exit 2."""
    tier = sys.argv[1] if len(sys.argv) > 1 else os.environ.get("VERIF_TIER", "quick")
    if tier not in ("quick", "thorough"):
        tier = "quick"
    c = Check(prop, tier, level)
    try:
        run_fn(c)
    except Inconclusive as e:
        if c.violations:
            # violations already established on the real code (each with its replay file) stand; what could not
            # be completed afterwards (typically a negative control that finds no accepted case left to corrupt,
            # because the code under test fails everywhere) is reported with them
            c.note("a later stage of the check was inconclusive: %s" % str(e)[:1500])
            sys.exit(c.finish())
        print("INCONCLUSIVE property=%s %s" % (prop, str(e)[:3000]))
        sys.exit(2)
    except Exception:   # a failure of the machinery is never a verdict about the code
        import traceback
        print("INCONCLUSIVE property=%s internal error of the check:\n%s" % (prop, traceback.format_exc()[-3000:]))
        sys.exit(2)
    sys.exit(c.finish())
