#!/bin/bash
# Run the quick (or $2) tier of the listed checks (default: every check of MANIFEST.json) one after the other;
# prints "<id> rc=<n> <seconds>s" and keeps each output under .work/runall/. Usage: lib/run_all.sh [seed] [tier] [ids...]
cd "$(dirname "$0")/.."
seed=${1:-1}; tier=${2:-quick}; shift 2 2>/dev/null
ids="$@"
[ -z "$ids" ] && ids=$(python3 -c "import json; print(' '.join(c['property_id'] for c in json.load(open('MANIFEST.json'))['checks']))")
mkdir -p .work/runall
for id in $ids; do
  s=$(date +%s)
  VERIF_SEED=$seed bin/check $id $tier > .work/runall/$id.$tier.$seed.out 2>&1; rc=$?
  e=$(date +%s)
  echo "$id rc=$rc $((e-s))s $(grep -c '^KNOWN-FINDING' .work/runall/$id.$tier.$seed.out) known $(grep '^VIOLATION' .work/runall/$id.$tier.$seed.out | head -2 | tr '\n' ' ')"
done
