#!/usr/bin/env python3
"""Prints the markdown table 'seeded change -> checks that report it' from seeded/*/*/result.json and meta.json."""
import glob
import json
import os

V = os.path.dirname(os.path.dirname(os.path.abspath(__file__)))
rows = []
for rp in sorted(glob.glob(os.path.join(V, "seeded", "*", "*", "result.json"))):
    d = os.path.dirname(rp)
    pid, var = d.split(os.sep)[-2:]
    r = json.load(open(rp))
    meta = {}
    mp = os.path.join(d, "meta.json")
    if os.path.exists(mp):
        meta = json.load(open(mp))
    caught, missed, incon = [], [], []
    for chk, x in sorted(r.get("checks", {}).items()):
        if x["rc"] == 1 and x["violations"] > 0:
            caught.append(chk)
        elif x["rc"] == 0:
            missed.append(chk)
        else:
            incon.append(chk)
    rows.append((pid, var, meta.get("summary", ""), caught, missed, incon))
print("| change | what it does | reported by | silent | inconclusive |")
print("|---|---|---|---|---|")
for pid, var, summ, caught, missed, incon in rows:
    print("| %s/%s | %s | %s | %s | %s |" % (pid, var, summ.replace("|", "/"), ", ".join(caught) or "-", ", ".join(missed) or "-", ", ".join(incon) or "-"))
